(def img (buffer/push-byte @"" 217 207 8 ;(string/bytes "core/peg") 4 0 7 100 0 0))
(print "unmarshal...")
(def r (protect (unmarshal img)))
(pp r)
