/* VF
{
 "defines": ["-DJANET_NO_NANBOX"],
 "units": ["wrap.c", "state.c", "fiber.c", "util.c"],
 "remove_bodies": ["janet_fiber_funcframe", "janet_fiber_funcframe_tail", "janet_fiber_cframe", "janet_fiber_push", "janet_fiber_pushn", "janet_fiber_push2", "janet_fiber_push3", "janet_fiber_setcapacity", "janet_fiber_popframe", "janet_fiber", "janet_fiber_reset", "janet_env_detach", "janet_env_valid", "janet_env_maybe_detach"],
 "cbmc": ["--no-built-in-assertions"],
 "no_body_deny_re": "^(janet_schedule|janet_cancel|janet_q_|janet_channel|janet_chan)",
 "backend": "cadical",
 "unwind": 8,
 "timeout": 300,
 "cases_py": "chan_step_cases.py",
 "functions_encoded": ["ev.c: janet_channel_push_with_lock, janet_channel_pop_with_lock, cfun_channel_close, janet_q_push, janet_q_push_head, janet_q_pop, janet_q_count, janet_q_maybe_resize, janet_schedule_general, janet_schedule, janet_chan_pack/unpack/lock/unlock (non-threaded)", "fiber.c: janet_fiber_can_resume"],
 "asserted": ["CH1 give step: from an arbitrary channel state (queue contents, ring positions, limit, waiters live or stale), give returns 'do not wait' iff a live taker was waiting or the item count after enqueueing is within the limit; the value goes to exactly one live reader's task (first live reader in queue order, stale entries in front of it are dropped) or to the tail of the item queue, never both, never neither; a blocked giver registers exactly one writer entry carrying its current generation (not in C-API mode)",
              "CH2 take step: closed -> nil; empty -> exactly one reader entry with the current generation (not in C-API mode); otherwise the item returned is the head of the queue and exactly one LIVE pending writer (first in queue order) is woken with the channel as value",
              "CH4 close step: every live, resumable waiter of both queues is scheduled exactly once, both queues are empty afterwards, the channel is closed",
              "S1 (C07): no task is ever scheduled for a fiber whose queue entry carries a generation different from the fiber's current one",
              "item order: the item queue after a give is the old sequence with the value appended; after a take it is the old sequence without its head"],
 "bounds": ["0..2 queued items, 0..2 pending readers, 0..2 pending writers (counts and ring head positions concrete per case, incl. wrapped rings), 3 fibers, generations/limit/closed/mode symbolic, values arbitrary numbers"],
 "stubs": ["janet_table_put on active_tasks inert", "tuple construction for select results returns a placeholder", "janet_panic family = end of path", "every other body-less callee inert (deny-list: scheduling and queue functions)"],
 "outside_claim": ["threaded channels (C08)", "ev/select argument parsing and clause ordering", "whole-program termination"]
}
VF */
#include "features.h"
#define VF_NO_PANIC_STUBS
#include "vf_stubs.h"
static int vf_suspended;
static void vf_on_suspend(void);
void janet_panicv(Janet message) { (void) message; vf_panic_common(); while (1) {} }
void janet_panic(const char *message) { (void) message; vf_panic_common(); while (1) {} }
void janet_panics(JanetString message) { (void) message; vf_panic_common(); while (1) {} }
void janet_panicf(const char *format, ...) { (void) format; vf_panic_common(); while (1) {} }
void janet_panic_type(Janet x, int32_t n, int expected) { (void) x; (void) n; (void) expected; vf_panic_common(); while (1) {} }
void janet_panic_abstract(Janet x, int32_t n, const JanetAbstractType *at) { (void) x; (void) n; (void) at; vf_panic_common(); while (1) {} }
void janet_signalv(JanetSignal sig, Janet message) { (void) message; if (sig == JANET_SIGNAL_EVENT) { vf_suspended = 1; vf_on_suspend(); } vf_panic_common(); while (1) {} }
#include "state.h"
static Janet vf_tuple_store[4];
Janet *janet_tuple_begin(int32_t length) { (void) length; return vf_tuple_store; }
const Janet *janet_tuple_end(Janet *tuple) { return tuple; }
const uint8_t *janet_csymbol(const char *s) { (void) s; return (const uint8_t *) "k"; }
void janet_table_put(JanetTable *t, Janet k, Janet v) { (void) t; (void) k; (void) v; }
Janet janet_table_get(JanetTable *t, Janet k) { (void) t; (void) k; return janet_wrap_nil(); }
JanetChannel *vf_getchannel_result;
void *janet_getabstract(const Janet *argv, int32_t n, const JanetAbstractType *at) { (void) at; if (!janet_checktype(argv[n], JANET_ABSTRACT)) janet_panic("type"); return janet_unwrap_abstract(argv[n]); }
void janet_fixarity(int32_t arity, int32_t fix) { if (arity != fix) janet_panic("arity"); }
void janet_arity(int32_t arity, int32_t min, int32_t max) { (void) arity; (void) min; (void) max; }
#include "ev.c"

#ifndef VF_NI
#error case macros missing
#endif
#define QCAP 4
static JanetFiber F[3];
static double item[2];
static JanetChannelPending rd[2], wr[2];
static struct { JanetAbstractHead head; JanetChannel ch; } chbox;

static void mkq(JanetQueue *q, void *data, int head, int n) {
    q->data = data; q->capacity = QCAP; q->head = head; q->tail = (head + n) % QCAP;
}
static JanetTask *task_at(int k) {   /* k-th task of the spawn queue */
    JanetQueue *q = &janet_vm.spawn;
    return ((JanetTask *) q->data) + ((q->head + k) % q->capacity);
}
static int same(Janet v, double d) {
    if (!janet_checktype(v, JANET_NUMBER)) return 0;
    double x = janet_unwrap_number(v);
    return x == d;
}

static double vf_sel_x; static int vf_sel_first_rlive, vf_sel_limit, vf_sel_closed; static JanetFiber *vf_sel_reader;
static void vf_on_suspend(void) {
#if VF_OP == 3
    /* the select is about to suspend its fiber: legitimate only if its clause is NOT already matched */
#ifdef VF_EXCLUDE_KNOWN
    /* known finding F6: give clause on a channel at capacity with a live taker waiting hands the value over and then suspends forever */
    if (vf_sel_first_rlive >= 0) VF_CUT();
#endif
    VF_ASSERT(vf_sel_first_rlive < 0, "select suspends although its give clause was matched by a waiting taker (value handed over, fiber never resumed)");
    VF_ASSERT(VF_NI >= vf_sel_limit, "select suspends although the channel had room");
    VF_WITNESS("select suspended");
#endif
}

void harness(void) {
    JanetChannel *ch = &chbox.ch;
    /* run queue: empty, with room for 8 tasks (a resize with a symbolic count stalls the solver; resize is checked separately) */
    janet_vm.spawn.data = malloc(sizeof(JanetTask) * 8);
#ifndef VF_REPLAY
    __CPROVER_assume(janet_vm.spawn.data != 0);
#endif
    janet_vm.spawn.capacity = 8; janet_vm.spawn.head = 0; janet_vm.spawn.tail = 0;
    janet_vm.root_fiber = &F[0];
    for (int i = 0; i < 3; i++) {
        F[i].sched_id = vf_u32();
        F[i].flags = vf_bool() ? (JANET_STATUS_PENDING << JANET_FIBER_STATUS_OFFSET) : (JANET_STATUS_DEAD << JANET_FIBER_STATUS_OFFSET);
        F[i].gc.flags = vf_bool() ? JANET_FIBER_EV_FLAG_SUSPENDED : 0;   /* not already cancelled-in-flight (then every schedule is ignored by design) */
    }
    /* queues: typed storage, concrete ring positions */
    Janet *idata = malloc(sizeof(Janet) * QCAP);
    JanetChannelPending *rdata = malloc(sizeof(JanetChannelPending) * QCAP);
    JanetChannelPending *wdata = malloc(sizeof(JanetChannelPending) * QCAP);
#ifndef VF_REPLAY
    __CPROVER_assume(idata && rdata && wdata);
#endif
    for (int i = 0; i < VF_NI; i++) { item[i] = vf_f64(); VF_ASSUME(item[i] == item[i]); idata[(VF_IH + i) % QCAP] = janet_wrap_number(item[i]); }
    for (int i = 0; i < VF_NR; i++) {
        rd[i].thread = &janet_vm; rd[i].fiber = &F[1 + (i % 2)]; rd[i].sched_id = vf_u32();
        rd[i].mode = vf_bool() ? JANET_CP_MODE_READ : JANET_CP_MODE_CHOICE_READ;
        rdata[(VF_RH + i) % QCAP] = rd[i];
    }
    for (int i = 0; i < VF_NW; i++) {
        wr[i].thread = &janet_vm; wr[i].fiber = &F[1 + ((i + 1) % 2)]; wr[i].sched_id = vf_u32();
        wr[i].mode = vf_bool() ? JANET_CP_MODE_WRITE : JANET_CP_MODE_CHOICE_WRITE;
        wdata[(VF_RH + i) % QCAP] = wr[i];
    }
    mkq(&ch->items, idata, VF_IH, VF_NI);
    mkq(&ch->read_pending, rdata, VF_RH, VF_NR);
    mkq(&ch->write_pending, wdata, VF_RH, VF_NW);
    ch->limit = vf_range(0, 3);
    ch->closed = vf_bool();
    ch->is_threaded = 0;
    uint32_t gen0 = F[0].sched_id;
    int rlive[2] = {0, 0}, wlive[2] = {0, 0};
    for (int i = 0; i < VF_NR; i++) rlive[i] = rd[i].sched_id == rd[i].fiber->sched_id;
    for (int i = 0; i < VF_NW; i++) wlive[i] = wr[i].sched_id == wr[i].fiber->sched_id;
    /* two entries of the same fiber with the same generation cannot both be registrations of one wait on this channel
       unless through select on the same channel twice; keep at most one live entry per fiber per queue */
    int first_rlive = -1, first_wlive = -1;
    for (int i = VF_NR - 1; i >= 0; i--) if (rlive[i]) first_rlive = i;
    for (int i = VF_NW - 1; i >= 0; i--) if (wlive[i]) first_wlive = i;

#if VF_OP == 0   /* ------------------------------------------------ give */
    double x = vf_f64(); VF_ASSUME(x == x);
    int mode = vf_range(0, 2);
    VF_ASSUME(!ch->closed);
    int r = janet_channel_push_with_lock(ch, janet_wrap_number(x), mode);
    int32_t ntask = janet_q_count(&janet_vm.spawn);
    if (first_rlive >= 0) {
        VF_ASSERT(r == 0, "give waits although a live taker was waiting");
        VF_ASSERT(ntask == 1, "give with a live taker did not schedule exactly one task");
        VF_ASSERT(task_at(0)->fiber == rd[first_rlive].fiber, "give woke a different fiber than the first live taker");
        if (rd[first_rlive].mode == JANET_CP_MODE_READ) VF_ASSERT(same(task_at(0)->value, x), "taker receives a different value than the one given");
        VF_ASSERT(janet_q_count(&ch->items) == VF_NI, "value handed to a taker was also enqueued");
        VF_ASSERT(janet_q_count(&ch->read_pending) == VF_NR - 1 - first_rlive, "reader queue after hand-off");
    } else {
        VF_ASSERT(ntask == 0, "give scheduled a task although no live taker was waiting (stale entry resumed)");
        VF_ASSERT(janet_q_count(&ch->items) == VF_NI + 1, "value neither handed over nor enqueued");
        VF_ASSERT(same(((Janet *) ch->items.data)[(ch->items.head + VF_NI) % ch->items.capacity], x), "enqueued value is not at the tail");
        for (int i = 0; i < VF_NI; i++) VF_ASSERT(same(((Janet *) ch->items.data)[(ch->items.head + i) % ch->items.capacity], item[i]), "earlier items changed or reordered");
        VF_ASSERT(janet_q_count(&ch->read_pending) == 0, "stale readers were not dropped");
        int over = (VF_NI + 1) > ch->limit;
        VF_ASSERT(r == over, "give returns 'wait' iff the channel is over capacity");
        if (over && mode != 2) {
            VF_ASSERT(janet_q_count(&ch->write_pending) == VF_NW + 1, "blocked giver did not register exactly one writer entry");
            JanetChannelPending *p = ((JanetChannelPending *) ch->write_pending.data) + ((ch->write_pending.head + VF_NW) % ch->write_pending.capacity);
            VF_ASSERT(p->fiber == &F[0] && p->sched_id == gen0, "writer entry does not carry the current fiber and generation");
        } else {
            VF_ASSERT(janet_q_count(&ch->write_pending) == VF_NW, "writer registered although give does not wait");
        }
    }
#elif VF_OP == 1 /* ------------------------------------------------ take */
    int is_choice = vf_range(0, 2);
    Janet out = janet_wrap_boolean(1);
    int r = janet_channel_pop_with_lock(ch, &out, is_choice);
    int32_t ntask = janet_q_count(&janet_vm.spawn);
    if (ch->closed) {
        VF_ASSERT(r == 1 && janet_checktype(out, JANET_NIL), "take on a closed channel is not nil");
        VF_ASSERT(ntask == 0, "take on a closed channel scheduled a task");
    } else if (VF_NI == 0) {
        VF_ASSERT(r == 0, "take returned an item from an empty channel");
        VF_ASSERT(ntask == 0, "take on an empty channel scheduled a task");
        if (is_choice != 2) {
            VF_ASSERT(janet_q_count(&ch->read_pending) == VF_NR + 1, "blocked taker did not register exactly one reader entry");
            JanetChannelPending *p = ((JanetChannelPending *) ch->read_pending.data) + ((ch->read_pending.head + VF_NR) % ch->read_pending.capacity);
            VF_ASSERT(p->fiber == &F[0] && p->sched_id == gen0, "reader entry does not carry the current fiber and generation");
        } else VF_ASSERT(janet_q_count(&ch->read_pending) == VF_NR, "C-API take registered a reader");
    } else {
        VF_ASSERT(r == 1 && same(out, item[0]), "take did not return the head item");
        VF_ASSERT(janet_q_count(&ch->items) == VF_NI - 1, "take did not remove exactly one item");
        if (VF_NI == 2) VF_ASSERT(same(((Janet *) ch->items.data)[ch->items.head], item[1]), "remaining item changed");
        if (first_wlive >= 0) {
            VF_ASSERT(ntask == 1, "take did not wake exactly one live pending giver");
            VF_ASSERT(task_at(0)->fiber == wr[first_wlive].fiber, "take woke a different fiber than the first live giver");
            if (wr[first_wlive].mode == JANET_CP_MODE_WRITE) VF_ASSERT(janet_checktype(task_at(0)->value, JANET_ABSTRACT) && janet_unwrap_abstract(task_at(0)->value) == (void *) ch, "giver is resumed with something other than the channel");
        } else {
            VF_ASSERT(ntask == 0, "take scheduled a task although no live giver was waiting (stale entry resumed)");
        }
    }
#elif VF_OP == 3 /* ------------------------------------------------ select with one give clause */
    double x = vf_f64(); VF_ASSUME(x == x);
    static struct { JanetTupleHead head; Janet data[2]; } clause;
    clause.head.length = 2; clause.data[0] = janet_wrap_abstract(ch); clause.data[1] = janet_wrap_number(x);
    Janet argv[1]; argv[0] = janet_wrap_tuple(clause.data);
    janet_vm.coerce_error = 0;
    vf_sel_x = x; vf_sel_first_rlive = first_rlive; vf_sel_reader = first_rlive >= 0 ? rd[first_rlive].fiber : NULL; vf_sel_limit = ch->limit; vf_sel_closed = ch->closed;
    VF_WITNESS("select entered");
    Janet res = cfun_channel_choice(1, argv);
    /* returned immediately: exactly one clause result */
    (void) res;
    VF_ASSERT(ch->closed || VF_NI < vf_sel_limit || first_rlive >= 0, "select-give completed immediately although the channel was full and no taker was waiting");
    if (!vf_sel_closed) {
        int32_t ntask = janet_q_count(&janet_vm.spawn);
        if (first_rlive >= 0) { VF_ASSERT(ntask == 1 && task_at(0)->fiber == vf_sel_reader, "select-give did not hand the value to the first live taker"); }
        else { VF_ASSERT(ntask == 0 && janet_q_count(&ch->items) == VF_NI + 1, "select-give neither enqueued nor handed over its value"); }
    }
#else            /* ------------------------------------------------ close */
    Janet argv[1]; argv[0] = janet_wrap_abstract(ch);
    int was_closed = ch->closed;
    cfun_channel_close(1, argv);
    int32_t ntask = janet_q_count(&janet_vm.spawn);
    VF_ASSERT(ch->closed, "channel not closed");
    if (!was_closed) {
        int expect = 0;
        for (int i = 0; i < VF_NR; i++) if (rlive[i] && janet_fiber_can_resume(rd[i].fiber)) expect++;
        for (int i = 0; i < VF_NW; i++) if (wlive[i] && janet_fiber_can_resume(wr[i].fiber)) expect++;
        /* a fiber appearing live in both queues is scheduled from the first; its generation then moves on */
        VF_ASSERT(janet_q_count(&ch->read_pending) == 0 && janet_q_count(&ch->write_pending) == 0, "close left waiters in the queues");
        VF_ASSERT(ntask <= expect, "close scheduled a fiber whose registration was stale or that cannot be resumed");
        int uniq = 0;
        for (int f = 1; f < 3; f++) {
            int live = 0;
            for (int i = 0; i < VF_NR; i++) if (rd[i].fiber == &F[f] && rlive[i] && janet_fiber_can_resume(&F[f])) live = 1;
            for (int i = 0; i < VF_NW; i++) if (wr[i].fiber == &F[f] && wlive[i] && janet_fiber_can_resume(&F[f])) live = 1;
            uniq += live;
            int got = 0;
            for (int k = 0; k < 4; k++) if (k < ntask && task_at(k)->fiber == &F[f]) got++;
            VF_ASSERT(got == live, "close: a live waiter was not woken exactly once (or a non-waiter was woken)");
        }
        (void) uniq;
    } else VF_ASSERT(ntask == 0, "closing a closed channel scheduled tasks");
#endif
    VF_WITNESS("channel step end");
}
