"""C09: compiled-PEG marshal/unmarshal round trip.  Grammars are compiled by peg/compile of the current tree (tools/pegdump.c);
the real peg_marshal writes the image, the real peg_unmarshal (with its bytecode verifier) reads it back."""
import os, json

GRAMMARS = [
    ("lit_seq", '(* "a" "b")'),
    ("backmatch", '(* (<- 1 :x) (backmatch :x))'),
    ("backmatch_opt", '(* (? (<- "a" :x)) "b" (backmatch :x))'),
    ("backref", '(* (<- 1 :x) "b" (-> :x))'),
    ("opt_set", '(* (? (set "ab")) (range "ac"))'),
    ("between_look", '(* (between 1 2 "a") (> 0 "b") (not "c"))'),
    ("recursive", '{:main (+ (* "a" :main "b") "c")}'),
    ("to_thru_if", '(* (to "b") (thru "c") (if "a" 1))'),
]

TEMPLATE = r'''/* VF
%(hdr)s
VF */
#include "features.h"
#include "vf_stubs.h"
#include "state.h"
#include "gc.h"
void *janet_gcalloc(enum JanetMemoryType type, size_t size) {
    JanetGCObject *p = malloc(size);
#ifndef VF_REPLAY
    __CPROVER_assume(p != 0);
#endif
    p->flags = type; p->data.next = NULL;
    return p;
}
void janet_gcpressure(size_t s) { (void) s; }
void *janet_srealloc(void *p, size_t n) { void *q = realloc(p, n); VF_ASSUME(q != NULL); return q; }
void *janet_smalloc(size_t n) { void *q = malloc(n ? n : 1); VF_ASSUME(q != NULL); return q; }
void janet_sfree(void *p) { free(p); }
#include "peg.c"
#include "marsh.c"
#include "%(gen)s"

#define G %(gi)d
#define PEG(g) PEG_(g)
#define PEG_(g) vf_peg_##g
#define PEGINIT(g) PEGINIT_(g)
#define PEGINIT_(g) vf_peg_init_##g
#define BC(g) BC_(g)
#define BC_(g) vf_peg_bc_##g
#define NW ((int) (sizeof(BC(G)) / sizeof(uint32_t)))
#define VF_BUFCAP 64

static uint8_t vf_bufdata[VF_BUFCAP];     /* at most 64 elements: CBMC tracks each byte separately and the image stays literal where the grammar is */
/* the one abstract this harness allocates is the PEG copy: a typed object with exactly the layout peg_unmarshal computes
 * (JanetPeg, then the bytecode words; no constants), so that CBMC keeps every word exact.  The requested size is checked. */
static struct { JanetAbstractHead head; JanetPeg peg; uint32_t bc[NW + 4]; } vf_copy;     /* + padding up to a Janet boundary */
static int vf_copy_used;
void *janet_abstract(const JanetAbstractType *atype, size_t size) {
    VF_ASSERT(!vf_copy_used, "second abstract allocation");
    vf_copy_used = 1;
    if (size != (sizeof(JanetPeg) + sizeof(uint32_t) * NW + sizeof(Janet) - 1) / sizeof(Janet) * sizeof(Janet)) VF_CUT();      /* other sizes: a mutated length word; outside this harness */
    vf_copy.head.gc.flags = 11; vf_copy.head.gc.data.next = NULL; vf_copy.head.type = atype; vf_copy.head.size = size;
    return &vf_copy.peg;
}

void harness(void) {
    janet_vm.traversal = NULL; janet_vm.traversal_base = NULL; janet_vm.traversal_top = NULL;
    PEGINIT(G)();
    JanetPeg *orig = &PEG(G).peg;
#if VF_MUT
    /* one bytecode word, at the position of the case, holds an ARBITRARY 32-bit value */
    const int j = VF_J;      /* position: one case per word */
    uint32_t v = vf_u32();
    uint32_t old = orig->bytecode[j];
    orig->bytecode[j] = v;
#else
    vf_panic_is_violation = 1;        /* the image of a compiled grammar must be accepted */
#endif
    JanetBuffer buf; memset(&buf, 0, sizeof(buf));
    buf.data = vf_bufdata; buf.capacity = VF_BUFCAP; buf.count = 0;
    MarshalState mst; memset(&mst, 0, sizeof(mst));
    mst.buf = &buf;
    JanetMarshalContext mc = {&mst, NULL, 0, NULL, &janet_peg_type};
    peg_marshal(orig, &mc);
    VF_ASSERT(buf.data == vf_bufdata && buf.count <= VF_BUFCAP, "image larger than the harness buffer");
    UnmarshalState ust; memset(&ust, 0, sizeof(ust));
    ust.start = buf.data; ust.end = buf.data + buf.count;
    JanetMarshalContext uc = {NULL, &ust, 0, buf.data, &janet_peg_type};
    VF_WITNESS("image written");
    JanetPeg *copy = (JanetPeg *) peg_unmarshal(&uc);        /* a rejected image raises: the path ends in the panic stub */
    VF_WITNESS("image accepted");
    VF_ASSERT(uc.data == ust.end, "unmarshal did not consume exactly the bytes marshal wrote");
    VF_ASSERT(copy != orig && copy->bytecode != NULL && copy->bytecode != orig->bytecode, "copy shares storage with the original");
    VF_ASSERT(copy->bytecode_len == orig->bytecode_len && copy->num_constants == orig->num_constants, "bytecode or constant count differs");
    for (int i = 0; i < NW; i++) VF_ASSERT(copy->bytecode[i] == orig->bytecode[i], "a bytecode word differs after the round trip");
#if VF_MUT
    /* the capture-bookkeeping flag is a function of the bytecode: with the word unchanged it must be the compiler's */
    if (v == old) VF_ASSERT(copy->has_backref == orig->has_backref, "has_backref differs from what peg/compile computed (tagged captures would be lost or kept differently)");
#else
    VF_ASSERT(copy->has_backref == orig->has_backref, "has_backref differs from what peg/compile computed (tagged captures would be lost or kept differently)");
#endif
}
'''


def prepare(tier, vf):
    gendir = os.path.join(vf.BUILD, "gen", vf.tree_hash(), "C09")
    hdir = os.path.join(gendir, "h")
    os.makedirs(hdir, exist_ok=True)
    for f in os.listdir(hdir):
        os.remove(os.path.join(hdir, f))
    src = "(map peg/compile [" + "\n ".join("'" + g[1] for g in GRAMMARS) + "])\n"
    gen = os.path.join(gendir, "grammars.h")
    vf.pegdump(src, gen)
    harnesses, info = [], {"grammars": [g[0] + ": " + g[1] for g in GRAMMARS]}
    import re
    nws = {int(m.group(1)): int(m.group(2)) for m in re.finditer(r"vf_peg_bc_(\d+)\[(\d+)\]", open(gen).read())}
    for gi, (name, gsrc) in enumerate(GRAMMARS):
        hdr = {
            "defines": ["-DJANET_NO_NANBOX"],
            "units": ["wrap.c", "state.c", "util.c", "array.c", "buffer.c", "string.c", "value.c", "tuple.c", "vector.c"],
            "remove_bodies": ["janet_formatbv", "janet_formatb", "janet_formatc", "janet_description_b", "janet_to_string_b", "janet_pretty", "janet_in", "janet_get", "janet_put", "janet_next", "janet_compare", "janet_equals",
                              "janet_hash", "janet_mcall", "janet_call", "janet_getindex", "janet_putindex", "janet_lengthv", "janet_buffer_format"],
            "remove_bodies_after_link": ["unmarshal_one", "marshal_one"], "allow_no_body": ["unmarshal_one", "marshal_one"],
            "no_body_deny_re": "^(peg_marshal|peg_unmarshal|size_padded|janet_marshal_|janet_unmarshal_|pushint|push64|pushbyte|readint|read64|janet_buffer_push|janet_buffer_extra|janet_v_|janet_abstract)",
            "backend": "cadical", "unwind": nws[gi] + 3, "timeout": 300, "mem_gb": 6,
            "cases": [{"name": "exact", "D": ["-DVF_MUT=0"]}] + [{"name": "word%d_arbitrary" % k, "D": ["-DVF_MUT=1", "-DVF_J=%d" % k], "cbmc": ["--paths", "lifo"], "tier": "thorough", "timeout_thorough": 900} for k in range(nws[gi])],
            "functions_encoded": ["peg.c: peg_marshal, peg_unmarshal (allocation layout, bytecode verifier, has_backref recomputation), size_padded", "marsh.c: janet_marshal_size/int/abstract, janet_unmarshal_size/int/abstract, pushint, push64, readint, read64", "buffer.c: janet_buffer_push_u8/bytes", "grammar bytecode from the real peg/compile of the current tree (pegdump)"],
            "asserted": ["P1 (exact): the image peg_marshal writes for the compiled grammar is accepted by peg_unmarshal, is consumed exactly, and the copy has the same bytecode words, the same counts and the has_backref flag peg/compile computed - matching is a function of exactly these fields and the text, so the copy matches every text identically",
                         "P2 (one_word_arbitrary): the same with one bytecode word, at any position, replaced by ANY 32-bit value (all integer encoding widths, words the verifier rejects end the path): every accepted image reproduces every word"],
            "bounds": ["%d grammars without constants (literals, sets, ranges, between, look/not/if, to/thru, recursion, tagged captures with backref and backmatch); one arbitrary word per run" % len(GRAMMARS)],
            "stubs": ["marshal_one / unmarshal_one (values nested in the PEG: its constants) have no body - the grammars have no constants, so they are never called", "GC/abstract/scratch allocation = malloc", "marshal buffer = fixed 64-byte array (bound asserted)", "janet_abstract = one static object of exactly the size peg_unmarshal must request for this grammar (another size ends the path)", "janet_panic family = end of path (exact case: failed obligation)"],
            "outside_claim": ["grammars with constants (replace, cmt, constant: go through marshal_one)", "running the matcher on the copy (follows from field equality)", "PEGs nested in larger value graphs (reference numbering)"],
        }
        hp = os.path.join(hdir, "pegrt_%s.c" % name)
        open(hp, "w").write(TEMPLATE % {"hdr": json.dumps(hdr, indent=1), "gen": gen, "gi": gi})
        harnesses.append(hp)
    return {"harnesses": harnesses, "info": info}
