/* VF
{
 "defines": ["-DJANET_NO_NANBOX"],
 "units": ["wrap.c", "state.c", "fiber.c", "util.c"],
 "remove_bodies": ["janet_fiber_funcframe", "janet_fiber_funcframe_tail", "janet_fiber_cframe", "janet_fiber_push", "janet_fiber_pushn", "janet_fiber_push2", "janet_fiber_push3", "janet_fiber_setcapacity", "janet_fiber_popframe", "janet_fiber", "janet_fiber_reset", "janet_env_detach", "janet_env_valid", "janet_env_maybe_detach"],
 "cbmc": ["--no-built-in-assertions"],
 "no_body_deny_re": "^(janet_schedule|janet_cancel|janet_async|ev_callback|janet_stream_close|write$|send$|sendto$|read$|recv)",
 "backend": "cadical",
 "unwind": 6,
 "timeout": 300,
 "cases": [{"name": "write_step_str", "D": ["-DVF_CASE=1", "-DVF_ISBUF=0"]}, {"name": "write_step_buf", "D": ["-DVF_CASE=1", "-DVF_ISBUF=1"]},
           {"name": "close_wakes_both", "D": ["-DVF_CASE=2"]}, {"name": "second_listener", "D": ["-DVF_CASE=3"]}, {"name": "async_end_once", "D": ["-DVF_CASE=4"]}],
 "functions_encoded": ["ev.c: ev_callback_write (POSIX machine), janet_async_end, janet_async_start_fiber, janet_stream_close, janet_schedule_general, janet_cancel, janet_schedule"],
 "asserted": ["W1 (inductive step of the write machine): from any progress offset `start` of a payload, one writable event offers the kernel exactly payload[start..len) (pointer and count), and afterwards the offset has advanced by exactly the accepted count; the fiber is resumed with nil iff the whole payload has been accepted; a hard error or a 0-byte stream write cancels it exactly once; EAGAIN changes nothing; after completion or error the listener is detached (no second resume)",
              "C1: closing a stream delivers the close event once to the pending reader AND once to the pending writer and clears both registrations",
              "L1: registering a new listener on a stream does not silently drop a previously registered, still waiting fiber (fails on this tree: known finding F3)",
              "janet_async_end is idempotent and clears only this fiber's registrations"],
 "bounds": ["payload length 4 (string or buffer), start 0..4 symbolic, one event; write/send results: -1 with errno in {EINTR (at most once), EAGAIN, EPIPE} or any count 0..offered"],
 "stubs": ["write/send/sendto = recording stubs with arbitrary results per POSIX contract", "janet_table_put / tuple / string constructors inert", "janet_panic family = end of path"],
 "outside_claim": ["the read machine", "kernel behaviour, real descriptors, subprocess plumbing, payloads > 4 bytes (the machine is length-oblivious except through start/len)"]
}
VF */
#include "features.h"
#include "vf_stubs.h"
#include "state.h"
#include <errno.h>
#include <unistd.h>
#include <sys/socket.h>
static Janet vf_tuple_store[4];
Janet *janet_tuple_begin(int32_t length) { (void) length; return vf_tuple_store; }
const Janet *janet_tuple_end(Janet *tuple) { return tuple; }
const uint8_t *janet_csymbol(const char *s) { (void) s; return (const uint8_t *) "k"; }
static struct { JanetStringHead head; uint8_t data[8]; } vf_errstr;
const uint8_t *janet_cstring(const char *s) { (void) s; return vf_errstr.data; }
const uint8_t *janet_string(const uint8_t *b, int32_t n) { (void) b; (void) n; return vf_errstr.data; }
void janet_table_put(JanetTable *t, Janet k, Janet v) { (void) t; (void) k; (void) v; }
Janet janet_table_get(JanetTable *t, Janet k) { (void) t; (void) k; return janet_wrap_nil(); }
void janet_gcroot(Janet x) { (void) x; }
int janet_gcunroot(Janet x) { (void) x; return 1; }

/* recording write stub */
static int vf_wcalls, vf_eintr_left = 1;
static const void *vf_wptr; static size_t vf_wn; static ssize_t vf_wret;
static ssize_t vf_write_common(const void *p, size_t n) {
    int kind = vf_range(0, 3);
    if (kind == 0 && vf_eintr_left > 0) { vf_eintr_left--; errno = EINTR; return -1; }
    vf_wcalls++; vf_wptr = p; vf_wn = n;
    if (kind == 1) { errno = EAGAIN; vf_wret = -1; return -1; }
    if (kind == 2) { errno = EPIPE; vf_wret = -1; return -1; }
    ssize_t r = (ssize_t) vf_range(0, 8);
    VF_ASSUME((size_t) r <= n);
    vf_wret = r;
    return r;
}
ssize_t write(int fd, const void *p, size_t n) { (void) fd; return vf_write_common(p, n); }
ssize_t send(int fd, const void *p, size_t n, int fl) { (void) fd; (void) fl; return vf_write_common(p, n); }
ssize_t sendto(int fd, const void *p, size_t n, int fl, const struct sockaddr *a, socklen_t l) { (void) fd; (void) fl; (void) a; (void) l; return vf_write_common(p, n); }
int close(int fd) { (void) fd; return 0; }
#include "ev.c"

static JanetFiber F[3];
static struct { JanetAbstractHead head; JanetStream s; } sbox;
static struct { JanetStringHead head; uint8_t data[5]; } payload;
static uint8_t bufdata[4];
static JanetBuffer pbuf;
static int cb_close[3], cb_deinit[3], cb_other[3];
static void vf_cb(JanetFiber *f, JanetAsyncEvent ev) {
    int i = (int)(f - F);
    if (ev == JANET_ASYNC_EVENT_CLOSE) { cb_close[i]++; janet_cancel(f, janet_wrap_nil()); janet_async_end(f); }
    else if (ev == JANET_ASYNC_EVENT_DEINIT) cb_deinit[i]++;
    else cb_other[i]++;
}
static int32_t ntask(void) { return janet_q_count(&janet_vm.spawn); }
static JanetTask *task_at(int k) { JanetQueue *q = &janet_vm.spawn; return ((JanetTask *) q->data) + ((q->head + k) % q->capacity); }

void harness(void) {
    JanetStream *st = &sbox.s;
    memset(st, 0, sizeof(*st));
    st->handle = 3; st->flags = JANET_STREAM_READABLE | JANET_STREAM_WRITABLE;
    janet_vm.spawn.data = malloc(sizeof(JanetTask) * 8);
#ifndef VF_REPLAY
    __CPROVER_assume(janet_vm.spawn.data != 0);
#endif
    janet_vm.spawn.capacity = 8; janet_vm.spawn.head = 0; janet_vm.spawn.tail = 0;
    janet_vm.listener_count = 5;
    for (int i = 0; i < 3; i++) { F[i].sched_id = vf_u32(); F[i].flags = JANET_STATUS_PENDING << JANET_FIBER_STATUS_OFFSET; F[i].gc.flags = 0; F[i].ev_callback = NULL; F[i].ev_state = NULL; F[i].ev_stream = NULL; }
#if VF_CASE == 1
    StateWrite *sw = malloc(sizeof(StateWrite));
#ifndef VF_REPLAY
    __CPROVER_assume(sw != 0);
#endif
    memset(sw, 0, sizeof(*sw));
    payload.head.length = 4; for (int i = 0; i < 4; i++) { payload.data[i] = vf_u8(); bufdata[i] = payload.data[i]; }
    pbuf.data = bufdata; pbuf.count = 4; pbuf.capacity = 4;
    sw->is_buffer = VF_ISBUF;
    if (VF_ISBUF) sw->src.buf = &pbuf; else sw->src.str = payload.data;
    sw->mode = vf_bool() ? JANET_ASYNC_WRITEMODE_WRITE : JANET_ASYNC_WRITEMODE_SEND;
    sw->dest_abst = NULL;
    int32_t start = vf_range(0, 4);
    sw->start = start;
    F[0].ev_callback = ev_callback_write; F[0].ev_state = sw; F[0].ev_stream = st;
    st->write_fiber = &F[0];
    const uint8_t *base = VF_ISBUF ? bufdata : payload.data;
    VF_WITNESS("write event delivered");
    ev_callback_write(&F[0], vf_bool() ? JANET_ASYNC_EVENT_WRITE : JANET_ASYNC_EVENT_INIT);
    if (start < 4) {
        VF_ASSERT(vf_wcalls == 1, "the kernel was not offered the remaining bytes exactly once");
        VF_ASSERT(vf_wptr == base + start && vf_wn == (size_t)(4 - start), "the write does not offer exactly payload[start..len) (duplication or gap)");
        if (vf_wret > 0) {
            if (start + vf_wret >= 4) {
                VF_ASSERT(ntask() == 1 && task_at(0)->fiber == &F[0] && task_at(0)->sig == JANET_SIGNAL_OK && janet_checktype(task_at(0)->value, JANET_NIL), "a completed write does not resume its fiber with nil");
                VF_ASSERT(F[0].ev_callback == NULL && st->write_fiber == NULL, "listener still attached after completion");
            } else {
                VF_ASSERT(ntask() == 0, "fiber resumed before the whole payload was accepted");
                VF_ASSERT(F[0].ev_callback == ev_callback_write && ((StateWrite *) F[0].ev_state)->start == start + vf_wret, "progress offset did not advance by exactly the accepted byte count");
            }
        } else if (vf_wret == 0) {
            VF_ASSERT(ntask() == 1 && task_at(0)->sig == JANET_SIGNAL_ERROR && F[0].ev_callback == NULL, "a zero-byte stream write did not cancel the writer exactly once");
        } else if (errno == EAGAIN) {
            VF_ASSERT(ntask() == 0 && F[0].ev_callback == ev_callback_write && ((StateWrite *) F[0].ev_state)->start == start, "EAGAIN changed the write state");
        } else {
            VF_ASSERT(ntask() == 1 && task_at(0)->sig == JANET_SIGNAL_ERROR && F[0].ev_callback == NULL && st->write_fiber == NULL, "a write error did not cancel the writer exactly once and detach it");
        }
    } else {
        VF_ASSERT(vf_wcalls == 0 && ntask() == 1 && task_at(0)->sig == JANET_SIGNAL_OK, "nothing left to write: fiber must be resumed without another write");
    }
#elif VF_CASE == 2
    F[0].ev_callback = vf_cb; F[0].ev_stream = st; F[1].ev_callback = vf_cb; F[1].ev_stream = st;
    int has_r = vf_bool(), has_w = vf_bool();
    st->read_fiber = has_r ? &F[0] : NULL; st->write_fiber = has_w ? &F[1] : NULL;
    VF_WITNESS("close called");
    janet_stream_close(st);
    VF_ASSERT(cb_close[0] == has_r && cb_close[1] == has_w, "close did not deliver the close event exactly once to each pending reader and writer");
    VF_ASSERT(st->read_fiber == NULL && st->write_fiber == NULL, "registrations survive close");
    VF_ASSERT(ntask() == has_r + has_w, "pending fibers were not all woken by close");
#elif VF_CASE == 3
    /* a second fiber starts the same kind of operation on a stream that already has a waiting fiber */
    int rd = vf_bool();
    F[0].ev_callback = vf_cb; F[0].ev_stream = st;
    if (rd) st->read_fiber = &F[0]; else st->write_fiber = &F[0];
#ifdef VF_EXCLUDE_KNOWN
    VF_WITNESS("known finding F3: every instance of this scenario is excluded");
    return;
#endif
    VF_WITNESS("second listener about to register");
    janet_async_start_fiber(&F[1], st, rd ? JANET_ASYNC_LISTEN_READ : JANET_ASYNC_LISTEN_WRITE, vf_cb, NULL);
    int still = (rd ? st->read_fiber : st->write_fiber) == &F[0];
    int woken = 0;
    for (int k = 0; k < 4; k++) if (k < ntask() && task_at(k)->fiber == &F[0]) woken = 1;
    VF_ASSERT(still || woken || vf_panicked, "a fiber waiting on the stream was silently dropped when another fiber started the same kind of operation (it is never completed, errored or resumed)");
#else
    F[0].ev_callback = vf_cb; F[0].ev_stream = st; F[1].ev_callback = vf_cb; F[1].ev_stream = st;
    st->read_fiber = &F[0]; st->write_fiber = &F[1];
    VF_WITNESS("async end called");
    janet_async_end(&F[0]);
    VF_ASSERT(st->read_fiber == NULL && st->write_fiber == &F[1], "async_end cleared another fiber's registration or kept its own");
    VF_ASSERT(cb_deinit[0] == 1 && F[0].ev_callback == NULL, "deinit delivered exactly once");
    janet_async_end(&F[0]);
    VF_ASSERT(cb_deinit[0] == 1 && st->write_fiber == &F[1], "async_end is not idempotent");
#endif
    VF_WITNESS("stream machine end");
}
