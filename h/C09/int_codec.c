/* VF
{
 "defines": ["-DJANET_NO_NANBOX"],
 "units": ["buffer.c", "util.c", "table.c", "value.c", "wrap.c", "state.c", "vector.c"],
 "unwind": 11,
 "timeout": 120,
 "cases": [{"name": "int32_roundtrip", "D": ["-DVF_CASE=1"]}, {"name": "u64_roundtrip", "D": ["-DVF_CASE=2"]}, {"name": "readint_any_len0", "D": ["-DVF_CASE=3", "-DVF_LEN=0"], "tier": "quick"}, {"name": "readint_any_len1", "D": ["-DVF_CASE=3", "-DVF_LEN=1"], "tier": "quick"}, {"name": "readint_any_len2", "D": ["-DVF_CASE=3", "-DVF_LEN=2"], "tier": "quick"}, {"name": "readint_any_len3", "D": ["-DVF_CASE=3", "-DVF_LEN=3"], "tier": "thorough"}, {"name": "readint_any_len4", "D": ["-DVF_CASE=3", "-DVF_LEN=4"], "tier": "thorough"}, {"name": "readint_any_len5", "D": ["-DVF_CASE=3", "-DVF_LEN=5"], "tier": "quick"}, {"name": "readint_any_len6", "D": ["-DVF_CASE=3", "-DVF_LEN=6"], "tier": "thorough"}, {"name": "readint_any_len7", "D": ["-DVF_CASE=3", "-DVF_LEN=7"], "tier": "thorough"}, {"name": "readint_any_len8", "D": ["-DVF_CASE=3", "-DVF_LEN=8"], "tier": "thorough"}, {"name": "readint_any_len9", "D": ["-DVF_CASE=3", "-DVF_LEN=9"], "tier": "quick"}, {"name": "read64_any_len0", "D": ["-DVF_CASE=4", "-DVF_LEN=0"], "tier": "quick"}, {"name": "read64_any_len1", "D": ["-DVF_CASE=4", "-DVF_LEN=1"], "tier": "quick"}, {"name": "read64_any_len2", "D": ["-DVF_CASE=4", "-DVF_LEN=2"], "tier": "quick"}, {"name": "read64_any_len3", "D": ["-DVF_CASE=4", "-DVF_LEN=3"], "tier": "thorough"}, {"name": "read64_any_len4", "D": ["-DVF_CASE=4", "-DVF_LEN=4"], "tier": "thorough"}, {"name": "read64_any_len5", "D": ["-DVF_CASE=4", "-DVF_LEN=5"], "tier": "quick"}, {"name": "read64_any_len6", "D": ["-DVF_CASE=4", "-DVF_LEN=6"], "tier": "thorough"}, {"name": "read64_any_len7", "D": ["-DVF_CASE=4", "-DVF_LEN=7"], "tier": "thorough"}, {"name": "read64_any_len8", "D": ["-DVF_CASE=4", "-DVF_LEN=8"], "tier": "thorough"}, {"name": "read64_any_len9", "D": ["-DVF_CASE=4", "-DVF_LEN=9"], "tier": "quick"}, {"name": "ctx_readers_any_len0", "D": ["-DVF_CASE=5", "-DVF_LEN=0"], "tier": "quick"}, {"name": "ctx_readers_any_len1", "D": ["-DVF_CASE=5", "-DVF_LEN=1"], "tier": "quick"}, {"name": "ctx_readers_any_len2", "D": ["-DVF_CASE=5", "-DVF_LEN=2"], "tier": "quick"}, {"name": "ctx_readers_any_len3", "D": ["-DVF_CASE=5", "-DVF_LEN=3"], "tier": "thorough"}, {"name": "ctx_readers_any_len4", "D": ["-DVF_CASE=5", "-DVF_LEN=4"], "tier": "thorough"}, {"name": "ctx_readers_any_len5", "D": ["-DVF_CASE=5", "-DVF_LEN=5"], "tier": "quick"}, {"name": "ctx_readers_any_len6", "D": ["-DVF_CASE=5", "-DVF_LEN=6"], "tier": "thorough"}, {"name": "ctx_readers_any_len7", "D": ["-DVF_CASE=5", "-DVF_LEN=7"], "tier": "thorough"}, {"name": "ctx_readers_any_len8", "D": ["-DVF_CASE=5", "-DVF_LEN=8"], "tier": "thorough"}, {"name": "ctx_readers_any_len9", "D": ["-DVF_CASE=5", "-DVF_LEN=9"], "tier": "quick"}, {"name": "value_roundtrip_nil", "D": ["-DVF_CASE=6", "-DVF_KIND=0"], "unwind": 12, "timeout": 240}, {"name": "value_roundtrip_bool", "D": ["-DVF_CASE=6", "-DVF_KIND=1"], "unwind": 12, "timeout": 1800, "tier": "thorough"}, {"name": "value_roundtrip_intnum", "D": ["-DVF_CASE=6", "-DVF_KIND=2"], "unwind": 12, "timeout": 1800, "tier": "thorough"}, {"name": "value_roundtrip_realnum", "D": ["-DVF_CASE=6", "-DVF_KIND=3"], "unwind": 12, "timeout": 1800, "tier": "thorough"}],
 "functions_encoded": ["marsh.c: pushint, push64, pushbyte, pushbytes, readint, readnat, read64, janet_unmarshal_int, janet_unmarshal_int64, janet_unmarshal_size, janet_unmarshal_byte, janet_unmarshal_bytes, janet_unmarshal_ensure", "buffer.c: janet_buffer_push_u8, janet_buffer_push_bytes, janet_buffer_extra, janet_buffer_ensure"],
 "asserted": ["M2 (scalars; nil in the quick tier, booleans and numbers thorough — the whole unmarshal_one switch is in the formula and no verdict came within 240 s): janet_unmarshal(janet_marshal(v)) is bit-identical to v (NaNs identified) and consumes exactly the bytes written, for nil, booleans and EVERY double (integers take the 1/2/5-byte integer form, all others the 8-byte real form)", "M1: readint(pushint(x)) == x for all int32 x, consuming exactly the bytes written, which are 1 / 2 / 5 bytes for the documented ranges; read64(push64(x)) == x for all uint64",
              "U3: on an arbitrary buffer of symbolic length <= 9 every reader either raises or consumes only bytes inside [start, end) (CBMC dereference checks on an exactly-sized heap object) and advances the cursor by what it consumed"],
 "bounds": ["all 2^32 / 2^64 integers; arbitrary input buffers of length 0..9 with every byte symbolic; janet_unmarshal_bytes lengths 0..12"],
 "stubs": ["janet_gcpressure (no-op)", "janet_panic* = end of path"],
 "outside_claim": ["declared lengths large enough to wrap a pointer in 'data + len' (pointer overflow is formal UB and is not modelled; see DESIGN E7)"]
}
VF */
#include "vf_stubs.h"
void janet_gcpressure(size_t s) { (void) s; }
void *janet_smalloc(size_t n) { return malloc(n ? n : 1); }
void janet_sfree(void *p) { free(p); }
#include "marsh.c"

static void mk_marshal(MarshalState *st, JanetBuffer *buf) {
    memset(st, 0, sizeof(*st));
    janet_buffer_init(buf, 16);
    st->buf = buf;
}

void harness(void) {
#if VF_CASE == 1
    MarshalState st; JanetBuffer buf;
    mk_marshal(&st, &buf);
    int32_t x = vf_i32();
    pushint(&st, x);
    int32_t n = buf.count;
    VF_ASSERT(n == ((x >= 0 && x < 128) ? 1 : ((x >= -8192 && x <= 8191) ? 2 : 5)), "pushint size class differs from the documented 1/2/5 byte ranges");
    UnmarshalState us; memset(&us, 0, sizeof(us));
    us.start = buf.data; us.end = buf.data + n;
    const uint8_t *d = buf.data;
    int32_t y = readint(&us, &d);
    VF_ASSERT(y == x, "readint(pushint(x)) != x");
    VF_ASSERT(d == buf.data + n, "readint consumed a different number of bytes than pushint wrote");
    VF_WITNESS("int32 roundtrip");
#elif VF_CASE == 2
    MarshalState st; JanetBuffer buf;
    mk_marshal(&st, &buf);
    uint64_t x = vf_u64();
    push64(&st, x);
    int32_t n = buf.count;
    UnmarshalState us; memset(&us, 0, sizeof(us));
    us.start = buf.data; us.end = buf.data + n;
    const uint8_t *d = buf.data;
    uint64_t y = read64(&us, &d);
    VF_ASSERT(y == x, "read64(push64(x)) != x");
    VF_ASSERT(d == buf.data + n, "read64 consumed a different number of bytes than push64 wrote");
    VF_ASSERT(n >= 1 && n <= 9, "push64 size");
    VF_WITNESS("u64 roundtrip");
#elif VF_CASE == 6
    janet_vm.traversal = NULL; janet_vm.traversal_base = NULL; janet_vm.traversal_top = NULL;
    JanetBuffer buf; janet_buffer_init(&buf, 16);
    const int kind = VF_KIND >= 2 ? 2 : VF_KIND;
    double d = vf_f64();
    if (VF_KIND == 2) VF_ASSUME(janet_checkintrange(d)); else if (VF_KIND == 3) VF_ASSUME(!janet_checkintrange(d));
    Janet v = kind == 0 ? janet_wrap_nil() : (kind == 1 ? janet_wrap_boolean(vf_bool()) : janet_wrap_number(d));
    janet_marshal(&buf, v, NULL, 0);
    const uint8_t *next = NULL;
    Janet w = janet_unmarshal(buf.data, (size_t) buf.count, 0, NULL, &next);
    VF_ASSERT(next == buf.data + buf.count, "unmarshal consumed a different number of bytes than marshal wrote");
    VF_ASSERT(janet_type(w) == janet_type(v), "round trip changed the type");
    if (kind == 1) VF_ASSERT(janet_unwrap_boolean(w) == janet_unwrap_boolean(v), "boolean changed");
    if (kind == 2) { union { double d; uint64_t u; } a, b; a.d = d; b.d = janet_unwrap_number(w); VF_ASSERT(a.u == b.u || (a.d != a.d && b.d != b.d), "a number does not survive the marshal round trip bit for bit"); }
    VF_WITNESS("scalar value roundtrip");
#else
    /* arbitrary untrusted bytes in an exactly-sized heap object */
    int32_t len = VF_LEN;
    uint8_t *in = malloc(len ? len : 1);
#ifndef VF_REPLAY
    __CPROVER_assume(in != 0);
#endif
    for (int32_t i = 0; i < len; i++) in[i] = vf_u8();
    UnmarshalState us; memset(&us, 0, sizeof(us));
    us.start = in; us.end = in + len;
    int32_t off = vf_range(0, len);
    const uint8_t *d = in + off;
#if VF_LEN == 0
    VF_WITNESS("empty input reaches the reader");
    vf_panic_is_violation = 0;
#endif
#if VF_CASE == 3
    int32_t v = readint(&us, &d);
    (void) v;
    VF_ASSERT(d > in + off && d <= in + len, "readint cursor left the input");
    VF_ASSERT(d - (in + off) == 1 || d - (in + off) == 2 || d - (in + off) == 5, "readint consumed an undocumented number of bytes");
#if VF_LEN == 0
    VF_ASSERT(0, "a reader returned normally on empty input");
#else
    VF_WITNESS("readint any");
#endif
#elif VF_CASE == 4
    uint64_t v = read64(&us, &d);
    (void) v;
    VF_ASSERT(d > in + off && d <= in + len, "read64 cursor left the input");
#if VF_LEN == 0
    VF_ASSERT(0, "a reader returned normally on empty input");
#else
    VF_WITNESS("read64 any");
#endif
#else
    JanetMarshalContext ctx = {NULL, &us, 0, d, NULL};
    int which = vf_range(0, 3);
    if (which == 0) { (void) janet_unmarshal_byte(&ctx); VF_ASSERT(ctx.data == d + 1, "byte cursor"); }
    else if (which == 1) {
        uint8_t dest[12];
        size_t n = (size_t) vf_range(0, 12);
        janet_unmarshal_bytes(&ctx, dest, n);
        VF_ASSERT(ctx.data == d + n && ctx.data <= in + len, "bytes cursor left the input");
        for (size_t i = 0; i < n; i++) VF_ASSERT(dest[i] == d[i], "bytes copied wrongly");
    } else if (which == 2) { (void) janet_unmarshal_int(&ctx); VF_ASSERT(ctx.data > d && ctx.data <= in + len, "int cursor"); }
    else { (void) janet_unmarshal_int64(&ctx); VF_ASSERT(ctx.data > d && ctx.data <= in + len, "int64 cursor"); }
#if VF_LEN == 0
    VF_ASSERT(which == 1, "a reader returned normally on empty input");
#else
    VF_WITNESS("ctx readers any");
#endif
#endif
#endif
}
