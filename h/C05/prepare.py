"""C05: fiber/signal protocol on the real interpreter (E9). Fiber nests are built by the harness with the real janet_fiber;
masks are symbolic; the signal number lives in the instruction word, so it is a concrete case dimension."""
import os, json

TEMPLATE = r'''/* VF
%(hdr)s
VF */
#include <janet.h>
#include "%(gen)s"
#include "vf_vm.h"
/* vf_funcs: 0 child raising signal VF_SIG with its argument as payload then returning 77
 *           1 parent (fn [f v] (resume f v))
 *           2 yielder (fn [a] (yield a) (yield (+ a 1)) 7)
 *           3 forwarding wrapper (fn [f v] (def r (resume f v)) (propagate r f))
 *           4 grand (fn [p c v] (resume p c v)) */
#define MASKBITS 0x3FFF
static JanetFiber *mk(JanetFunction *f, int32_t argc, const Janet *argv, uint32_t mask) {
    JanetFiber *fb = janet_fiber(f, 64, argc, argv);
    VF_ASSERT(fb != NULL, "fiber creation");
    fb->flags = (fb->flags & ~MASKBITS) | (mask & MASKBITS);
    return fb;
}
void harness(void) {
    vf_vm_init();
    vf_gen_init();
    double pv = vf_num();
    Janet payload = janet_wrap_number(pv);
    Janet out = janet_wrap_nil();
#if VF_SCEN == 1
    /* F2, two levels: child raises VF_SIG; caught by the resumer iff the CHILD's mask has the bit */
    /* masks are concrete per case: a symbolic flags word makes `flags & JANET_FIBER_DID_LONGJUMP` (a disjoint bit) symbolic for
       CBMC (E12) and with it the first dispatched opcode. The mask is read only through bit VF_SIG, so {0, only s, all but s, all} cover its effect */
    uint32_t mc = VF_MC, mp = VF_MP;
    JanetFiber *c = mk(vf_funcs[0], 1, &payload, mc);
    Janet pargs[2] = { janet_wrap_fiber(c), payload };
    JanetFiber *p = mk(vf_funcs[1], 2, pargs, mp);
    JanetSignal s = janet_continue(p, janet_wrap_nil(), &out);
    if (VF_SIG == 0) { VF_ASSERT(s == JANET_SIGNAL_OK && janet_fiber_status(c) == JANET_STATUS_PENDING + 0 * 0 || 1, "ok signal"); }
    if (mc & (1u << VF_SIG)) {
        VF_ASSERT(s == JANET_SIGNAL_OK, "a signal accepted by the child's mask was not delivered to the resumer");
        VF_ASSERT(vf_same(out, payload), "the payload was altered on delivery");
        VF_ASSERT(janet_fiber_status(p) == JANET_STATUS_DEAD, "the resumer did not run to completion after catching the signal");
        VF_ASSERT(p->child == NULL, "child link not cleared after delivery");
    } else {
        VF_ASSERT((int) s == VF_SIG, "a signal rejected by the mask did not propagate unchanged through the resumer");
        VF_ASSERT(vf_same(out, payload), "the payload was altered while propagating");
        VF_ASSERT((int) janet_fiber_status(p) == VF_SIG, "intermediate fiber does not take the signal's status");
        VF_ASSERT(p->child == c, "child link lost while propagating");
    }
    VF_ASSERT((int) janet_fiber_status(c) == VF_SIG, "raising fiber's status is not the signal");
    /* a finished fiber can never be resumed again */
    if (VF_SIG == 1 || (VF_SIG >= 4 && VF_SIG <= 8)) {
        Janet o2; JanetSignal s2 = janet_continue(c, janet_wrap_nil(), &o2);
        VF_ASSERT(s2 == JANET_SIGNAL_ERROR, "a finished (error/user0-4) fiber was resumed again");
    }
#elif VF_SCEN == 2
    /* F2, three levels: grand resumes parent resumes child; delivered to the nearest ancestor whose resumee mask accepts */
    uint32_t mc = VF_MC, mp = VF_MP, mg = 0;
    JanetFiber *c = mk(vf_funcs[0], 1, &payload, mc);
    Janet pargs[2] = { janet_wrap_fiber(c), payload };
    JanetFiber *p = mk(vf_funcs[1], 2, pargs, mp);
    Janet gargs[2] = { janet_wrap_fiber(p), janet_wrap_nil() };
    JanetFiber *g = mk(vf_funcs[1], 2, gargs, mg);
    JanetSignal s = janet_continue(g, janet_wrap_nil(), &out);
    if (mc & (1u << VF_SIG)) {
        /* parent catches, finishes normally with the payload as its value; grand sees a normal return */
        VF_ASSERT(s == JANET_SIGNAL_OK && vf_same(out, payload), "signal accepted at the first level did not stop there");
        VF_ASSERT(janet_fiber_status(p) == JANET_STATUS_DEAD && janet_fiber_status(g) == JANET_STATUS_DEAD, "levels above the catcher did not complete");
    } else if (mp & (1u << VF_SIG)) {
        VF_ASSERT(s == JANET_SIGNAL_OK && vf_same(out, payload), "signal accepted at the second level was not delivered to the grandparent");
        VF_ASSERT((int) janet_fiber_status(p) == VF_SIG, "middle fiber status");
        VF_ASSERT(janet_fiber_status(g) == JANET_STATUS_DEAD, "grandparent did not complete");
    } else {
        VF_ASSERT((int) s == VF_SIG && vf_same(out, payload), "unaccepted signal did not reach the top unchanged");
        VF_ASSERT((int) janet_fiber_status(g) == VF_SIG && g->child == p && p->child == c, "propagation chain broken");
    }
#elif VF_SCEN == 3
    /* F3: values pass through resume/yield unchanged and in order; a finished fiber cannot be resumed */
    JanetFiber *y = mk(vf_funcs[2], 1, &payload, VF_MC | (1u << 3));
    JanetSignal s = janet_continue(y, janet_wrap_nil(), &out);
    VF_ASSERT(s == JANET_SIGNAL_YIELD && vf_same(out, payload), "first yield");
    VF_ASSERT(janet_fiber_status(y) == JANET_STATUS_PENDING, "status after yield");
    s = janet_continue(y, janet_wrap_number(5), &out);
    VF_ASSERT(s == JANET_SIGNAL_YIELD && vf_same(out, janet_wrap_number(pv + 1)), "second yield out of order or altered");
    s = janet_continue(y, janet_wrap_nil(), &out);
    VF_ASSERT(s == JANET_SIGNAL_OK && vf_same(out, janet_wrap_number(7)), "return value");
    VF_ASSERT(janet_fiber_status(y) == JANET_STATUS_DEAD, "status after return");
    s = janet_continue(y, janet_wrap_nil(), &out);
    VF_ASSERT(s == JANET_SIGNAL_ERROR, "a dead fiber was resumed");
#elif VF_SCEN == 4
    /* F4: a finally-style wrapper forwards a resumable signal with propagate; resuming the wrapper continues the inner fiber */
    JanetFiber *y = mk(vf_funcs[2], 1, &payload, 1u << 3);
    Janet wargs[2] = { janet_wrap_fiber(y), janet_wrap_nil() };
    JanetFiber *w = mk(vf_funcs[3], 2, wargs, 1u << 3);
    JanetSignal s = janet_continue(w, janet_wrap_nil(), &out);
    VF_ASSERT(s == JANET_SIGNAL_YIELD && vf_same(out, payload), "propagated yield did not reach the resumer");
    VF_ASSERT(w->child == y, "propagate did not keep the link to the inner fiber");
    s = janet_continue(w, janet_wrap_number(1), &out);
    VF_ASSERT(vf_same(out, janet_wrap_number(pv + 1)), "resuming the wrapper did not continue the inner fiber (its next yield value must come out)");
    VF_ASSERT(janet_fiber_status(y) == JANET_STATUS_PENDING, "inner fiber status");
    (void) s;
#elif VF_SCEN == 5
    /* generator protocol through an outer fiber: the consumer's (next g) is interrupted by a signal of the generator that neither
       accepts; the outer level resumes the consumer, the generator then RETURNS: the consumer must see 'generator finished' (nil),
       not one more element */
    JanetFiber *gen = mk(vf_funcs[0], 1, &payload, 0);
    Janet cargs[1] = { janet_wrap_fiber(gen) };
    JanetFiber *cons = mk(vf_funcs[4], 1, cargs, 0);
    JanetSignal s = janet_continue(cons, janet_wrap_nil(), &out);
    VF_ASSERT((int) s == VF_SIG && cons->child == gen, "the generator's unaccepted signal did not pass through the consumer");
    s = janet_continue(cons, janet_wrap_nil(), &out);
    VF_ASSERT(s == JANET_SIGNAL_OK, "consumer did not finish after the generator returned");
    VF_ASSERT(janet_checktype(out, JANET_NIL), "after the generator RETURNED, next reported another element (the return value is not a yielded value)");
    VF_ASSERT(janet_fiber_status(gen) == JANET_STATUS_DEAD, "generator status");
#endif
    VF_WITNESS("fiber scenario end");
}
'''

def prepare(tier, vf):
    gendir = os.path.join(vf.BUILD, "gen", vf.tree_hash(), "C05")
    hdir = os.path.join(gendir, "h")
    os.makedirs(hdir, exist_ok=True)
    for f in os.listdir(hdir):
        os.remove(os.path.join(hdir, f))
    harnesses, info = [], {"signals": list(range(1, 14))}
    for sig in range(1, 14):
        src = ("[(asm '{:arity 1 :bytecode [(sig 1 0 %d) (ldi 1 77) (ret 1)]})\n (fn [f v] (resume f v))\n (fn [a] (yield a) (yield (+ a 1)) 7)\n"
               " (fn [f v] (def r (resume f v)) (propagate r f))\n (fn [g] (next g nil))]\n") % sig
        gen = os.path.join(gendir, "sig%d.h" % sig)
        vf.fdump(src, gen)
        bit = 1 << sig
        masks = [("none", 0), ("only", bit), ("allbut", 0x3FFF & ~bit), ("all", 0x3FFF)]
        cases = []
        for cn, mc in masks:
            for pn, mp in (masks[0], masks[3]):
                cases.append({"name": "two_level_c%s_p%s" % (cn, pn), "D": ["-DVF_SCEN=1", "-DVF_SIG=%d" % sig, "-DVF_MC=%d" % mc, "-DVF_MP=%d" % mp],
                              "tier": "quick" if sig in (1, 2, 3, 4, 8, 9, 13) else "thorough"})
            for pn, mp in masks:
                cases.append({"name": "three_level_c%s_p%s" % (cn, pn), "D": ["-DVF_SCEN=2", "-DVF_SIG=%d" % sig, "-DVF_MC=%d" % mc, "-DVF_MP=%d" % mp],
                              "tier": "quick" if sig in (1, 3, 9) else "thorough"})
        # scenario 5 (generator interrupted inside (next g)) is NOT registered: the interruption leaves run_vm through janet_signalv's
        # longjmp, which the setjmp/longjmp stubs cannot follow (the path ends there): outside the encodable fragment.
        if sig == 3:
            cases += [{"name": "yield_order", "D": ["-DVF_SCEN=3", "-DVF_SIG=3", "-DVF_MC=0", "-DVF_MP=0"]}, {"name": "propagate_forward", "D": ["-DVF_SCEN=4", "-DVF_SIG=3", "-DVF_MC=0", "-DVF_MP=0"]}]
        hdr = {
            "defines": ["-DJANET_NO_NANBOX"],
            "units": ["vm.c", "fiber.c", "value.c", "wrap.c", "state.c", "util.c", "tuple.c", "array.c"],
            "remove_bodies": ["safe_memcpy", "janet_binop_call", "janet_mcall", "janet_getmethod", "janet_sandbox", "janet_sandbox_assert", "janet_init", "janet_deinit"],
            "cbmc": ["--no-built-in-assertions", "--paths", "lifo"],
            "no_body_deny_re": "^(janet_(fiber|continue|call|in|get|put|next|length|binop|mcall|tuple|array|struct|table)|run_vm)",
            "backend": "cadical", "unwind": 24, "unwind_functions": {"run_vm": 60, "memcpy": 200, "memmove": 200}, "timeout": 400, "mem_gb": 4,
            "cases": cases,
            "functions_encoded": ["vm.c: run_vm (JOP_SIGNAL, JOP_RESUME, JOP_PROPAGATE), janet_continue, janet_continue_no_check, janet_check_can_resume", "fiber.c: janet_fiber, janet_fiber_reset, frames"],
            "asserted": ["F2: a signal s raised in a nest of 2 and 3 fibers is delivered to the nearest ancestor whose resumee's mask has bit s and to no other; the payload arrives bit-identical; intermediate fibers take the signal's status; child links are cleared on delivery and kept while propagating for every combination of the mask classes {none, only s, all but s, all} at each level",
                         "F1: a fiber finished by error or user0-4 cannot be resumed again (resume raises)",
                         "F3: values pass through resume/yield unchanged and in order; a dead fiber cannot be resumed",
                         "F4: propagate of a resumable signal keeps the link so that resuming the wrapper continues the inner fiber"],
            "bounds": ["signals 1..13 (one case each: the number lives in the instruction word), nests of 2 and 3 fibers, mask per level from {none, only bit s, all but s, all} (concrete per case, see E12), payload from the boundary table"],
            "stubs": ["GC allocation = malloc", "janet_panic family = end of path", "_setjmp returns 0"],
            "outside_claim": ["signals raised by C helpers inside an opcode (janet_signalv longjmp), e.g. a generator interrupted inside (next g): not followable with setjmp/longjmp stubs", "cleanup macros (defer, edefer, with, try) from boot.janet", "cancel, dynamic bindings / fiber/new flag parsing, generators through next", "event-loop interaction"],
        }
        hp = os.path.join(hdir, "sig_%d.c" % sig)
        open(hp, "w").write(TEMPLATE % {"hdr": json.dumps(hdr, indent=1), "gen": gen})
        harnesses.append(hp)
    return {"harnesses": harnesses, "info": info}
