/* VF
{
 "defines": ["-DJANET_NO_NANBOX"],
 "units": ["wrap.c", "state.c"],
 "backend": "cadical",
 "unwind": 8,
 "timeout": 300,
 "no_body_deny_re": "^(janet_bytecode_remove_noops|janet_verify)",
 "cases_py": "remove_noops_cases.py",
 "functions_encoded": ["bytecode.c: janet_bytecode_remove_noops, janet_verify"],
 "asserted": ["K4: removing no-ops from a verified function of 5 instructions (a jump of each kind at position 0 with an arbitrary valid target, no-ops at the positions given by the case) leaves the sequence of remaining instructions unchanged, keeps every operand other than the jump offset, makes the jump land on the image of its old target (the first surviving instruction at or after it), keeps the source mapping of every surviving instruction, and the result still passes janet_verify"],
 "bounds": ["5 instructions; jump opcode in {jmp, jmpif, jmpno, jmpni, jmpnn} (concrete per case); no-op positions: every subset of {1,2,3} (concrete per case); jump target, slot operand and the other instructions' operand bits symbolic"],
 "stubs": ["janet_smalloc/janet_sfree = malloc/free", "janet_panic family = end of path"],
 "outside_claim": ["janet_bytecode_movopt (which instructions become no-ops)", "functions longer than 5 instructions, several jumps at once", "symbol map rewriting"]
}
VF */
#include "vf_stubs.h"
#include "state.h"
void *janet_smalloc(size_t n) { void *p = malloc(n ? n : 1);
#ifndef VF_REPLAY
    __CPROVER_assume(p != 0);
#endif
    return p; }
void janet_sfree(void *p) { free(p); }
#include "bytecode.c"

#ifndef VF_JOP
#error case macros missing
#endif
#define N 5
void harness(void) {
    JanetFuncDef def; memset(&def, 0, sizeof(def));
    uint32_t *bc = malloc(sizeof(uint32_t) * N);
    JanetSourceMapping *sm = malloc(sizeof(JanetSourceMapping) * N);
#ifndef VF_REPLAY
    __CPROVER_assume(bc && sm);
#endif
    uint32_t old[N]; int isnoop[N];
    int32_t target = vf_range(0, N - 1);
    uint32_t slot = vf_range(0, 1);
    /* position 0: the jump under test, offset = target - 0 */
#if VF_JOP_IS_L
    bc[0] = (uint32_t) VF_JOP | ((uint32_t) target << 8);
#else
    bc[0] = (uint32_t) VF_JOP | (slot << 8) | ((uint32_t) target << 16);
#endif
    for (int i = 1; i < N; i++) {
        isnoop[i] = (VF_NOOPMASK >> i) & 1;
        if (i == N - 1) bc[i] = JOP_RETURN_NIL;
        else if (isnoop[i]) bc[i] = JOP_NOOP;
        else bc[i] = JOP_LOAD_INTEGER | (slot << 8) | ((uint32_t) vf_u16() << 16);   /* ldi slot, imm: distinguishable payload */
    }
    isnoop[0] = 0;
    for (int i = 0; i < N; i++) { old[i] = bc[i]; sm[i].line = 100 + i; sm[i].column = i; }
    def.bytecode = bc; def.bytecode_length = N; def.slotcount = 2; def.sourcemap = sm;
    VF_ASSUME(janet_verify(&def) == 0);
    VF_WITNESS("noop removal called");
    janet_bytecode_remove_noops(&def);
    int nnoop = 0; for (int i = 1; i < N; i++) nnoop += isnoop[i];
    VF_ASSERT(def.bytecode_length == N - nnoop, "length after removing no-ops");
    /* image of an old position: number of surviving instructions before it */
    int32_t map[N + 1]; int32_t c = 0;
    for (int i = 0; i < N; i++) { map[i] = c; if (!isnoop[i]) c++; }
    int j = 0;
    for (int i = 0; i < N; i++) {
        if (isnoop[i]) continue;
        if (i == 0) {
#if VF_JOP_IS_L
            int32_t newt = j + (((int32_t) def.bytecode[j]) >> 8);
            VF_ASSERT((def.bytecode[j] & 0xFF) == VF_JOP, "jump opcode changed");
#else
            int32_t newt = j + (((int32_t) def.bytecode[j]) >> 16);
            VF_ASSERT((def.bytecode[j] & 0xFFFF) == (old[0] & 0xFFFF), "jump opcode or condition slot changed");
#endif
            VF_ASSERT(newt == map[target], "after removing no-ops the jump no longer lands on the image of its old target (instructions would be skipped or repeated)");
        } else {
            VF_ASSERT(def.bytecode[j] == old[i], "a surviving instruction was altered or reordered");
        }
        VF_ASSERT(def.sourcemap[j].line == 100 + i, "source mapping of a surviving instruction changed (errors would be attributed to the wrong form)");
        j++;
    }
    VF_ASSERT(janet_verify(&def) == 0, "the cleaned-up function no longer passes verification");
    VF_WITNESS("noop removal end");
}
