/* sb_stubs.h — environment of the per-function sandbox harnesses (C18 B1).
 *
 *  - every libc entry that performs an operation of a capability kind asserts that the
 *    kind is not disabled (OS_OP); all results are arbitrary;
 *  - argument accessors return arbitrary values of their type (strings: <= 3 symbolic
 *    bytes + NUL), so the function body is explored for every argument;
 *  - constructors of result values return nil (results are not the subject).
 */
#ifndef SB_STUBS_H
#define SB_STUBS_H
#include "features.h"
#include <janet.h>
#include "state.h"
#include "util.h"
#include "vf_stubs.h"
#include <sys/types.h>
#include <sys/stat.h>
#include <sys/wait.h>
#include <sys/socket.h>
#include <fcntl.h>
#include <unistd.h>
#include <dirent.h>
#include <stdio.h>
#include <stdlib.h>
#include <signal.h>
#include <spawn.h>
#include <dlfcn.h>
#include <utime.h>
#include <time.h>
#include <errno.h>
#include <netdb.h>

#define OS_OP(kind) VF_ASSERT(!(janet_vm.sandbox_flags & (kind)), "OS operation reached although its capability is disabled: " #kind)

int vf_op_count; /* number of capability-relevant OS operations performed */

static int nd_int(void) { return vf_i32(); }

/* ---------------- file system ---------------- */
int mkdir(const char *p, mode_t m) { (void) p; (void) m; OS_OP(JANET_SANDBOX_FS_WRITE); vf_op_count++; return nd_int(); }
int rmdir(const char *p) { (void) p; OS_OP(JANET_SANDBOX_FS_WRITE); vf_op_count++; return nd_int(); }
int unlink(const char *p) { (void) p; OS_OP(JANET_SANDBOX_FS_WRITE); vf_op_count++; return nd_int(); }
int remove(const char *p) { (void) p; OS_OP(JANET_SANDBOX_FS_WRITE); vf_op_count++; return nd_int(); }
int rename(const char *a, const char *b) { (void) a; (void) b; OS_OP(JANET_SANDBOX_FS_WRITE); vf_op_count++; return nd_int(); }
int link(const char *a, const char *b) { (void) a; (void) b; OS_OP(JANET_SANDBOX_FS_WRITE); vf_op_count++; return nd_int(); }
int symlink(const char *a, const char *b) { (void) a; (void) b; OS_OP(JANET_SANDBOX_FS_WRITE); vf_op_count++; return nd_int(); }
int chmod(const char *p, mode_t m) { (void) p; (void) m; OS_OP(JANET_SANDBOX_FS_WRITE); vf_op_count++; return nd_int(); }
int utime(const char *p, const struct utimbuf *t) { (void) p; (void) t; OS_OP(JANET_SANDBOX_FS_WRITE); vf_op_count++; return nd_int(); }
int truncate(const char *p, off_t l) { (void) p; (void) l; OS_OP(JANET_SANDBOX_FS_WRITE); vf_op_count++; return nd_int(); }
int chdir(const char *p) { (void) p; OS_OP(JANET_SANDBOX_FS_READ); vf_op_count++; return nd_int(); }
int stat(const char *p, struct stat *st) { (void) p; (void) st; OS_OP(JANET_SANDBOX_FS_READ); vf_op_count++; return nd_int(); }
int lstat(const char *p, struct stat *st) { (void) p; (void) st; OS_OP(JANET_SANDBOX_FS_READ); vf_op_count++; return nd_int(); }
ssize_t readlink(const char *p, char *b, size_t n) { (void) p; (void) b; (void) n; OS_OP(JANET_SANDBOX_FS_READ); vf_op_count++; return -1; }
char *realpath(const char *p, char *r) { (void) p; (void) r; OS_OP(JANET_SANDBOX_FS_READ); vf_op_count++; return NULL; }
DIR *opendir(const char *p) { (void) p; OS_OP(JANET_SANDBOX_FS_READ); vf_op_count++; return NULL; }
#ifdef SB_UNIT_filewatch
#include <sys/inotify.h>
int inotify_init1(int f) { (void) f; OS_OP(JANET_SANDBOX_FS_READ); vf_op_count++; return nd_int(); }
int inotify_init(void) { OS_OP(JANET_SANDBOX_FS_READ); vf_op_count++; return nd_int(); }
int inotify_add_watch(int fd, const char *p, uint32_t m) { (void) fd; (void) p; (void) m; OS_OP(JANET_SANDBOX_FS_READ); vf_op_count++; return nd_int(); }
#endif
FILE *tmpfile(void) { OS_OP(JANET_SANDBOX_FS_TEMP); vf_op_count++; return NULL; }
int mkstemp(char *t) { (void) t; OS_OP(JANET_SANDBOX_FS_TEMP); vf_op_count++; return nd_int(); }
int open(const char *p, int flags, ...) {
    (void) p;
    int acc = flags & O_ACCMODE;
    if (acc == O_RDONLY || acc == O_RDWR) OS_OP(JANET_SANDBOX_FS_READ);
    if (acc == O_WRONLY || acc == O_RDWR || (flags & (O_CREAT | O_TRUNC))) OS_OP(JANET_SANDBOX_FS_WRITE);
    vf_op_count++;
    return -1;
}
FILE *fopen(const char *p, const char *mode) {
    (void) p;
    /* mode string: r = read existing content; w = truncate+write (w+ can only read back what it wrote);
     * a = append (a+ can read existing content); + on r adds writing */
    int rd = 0, wr = 0, plus = 0;
    for (int i = 1; i < 4 && mode[0] && mode[i]; i++) if (mode[i] == '+') plus = 1;
    if (mode[0] == 'r') { rd = 1; wr = plus; }
    else if (mode[0] == 'w') { wr = 1; }
    else if (mode[0] == 'a') { wr = 1; rd = plus; }
    else { rd = 1; wr = 1; }
    if (rd) OS_OP(JANET_SANDBOX_FS_READ);
    if (wr) OS_OP(JANET_SANDBOX_FS_WRITE);
    vf_op_count++;
    return NULL;
}
/* stdio on already-open handles: inert (outside the claim) */
size_t fread(void *p, size_t s, size_t n, FILE *f) { (void) p; (void) s; (void) f; size_t r = (size_t) vf_u64(); VF_ASSUME(r <= n); return r; }
size_t fwrite(const void *p, size_t s, size_t n, FILE *f) { (void) p; (void) s; (void) f; size_t r = (size_t) vf_u64(); VF_ASSUME(r <= n); return r; }
int fclose(FILE *f) { (void) f; return nd_int(); }
int fflush(FILE *f) { (void) f; return nd_int(); }
int fseek(FILE *f, long o, int w) { (void) f; (void) o; (void) w; return nd_int(); }
long ftell(FILE *f) { (void) f; return nd_int(); }
int fgetc(FILE *f) { (void) f; return nd_int(); }
int getc(FILE *f) { (void) f; return nd_int(); }
int fputc(int c, FILE *f) { (void) f; return c; }
int putc(int c, FILE *f) { (void) f; return c; }
int fileno(FILE *f) { (void) f; return nd_int(); }
int feof(FILE *f) { (void) f; return nd_int(); }
int ferror(FILE *f) { (void) f; return nd_int(); }
/* ---------------- subprocess ---------------- */
pid_t fork(void) { OS_OP(JANET_SANDBOX_SUBPROCESS); vf_op_count++; return -1; }
int system(const char *c) { (void) c; OS_OP(JANET_SANDBOX_SUBPROCESS); vf_op_count++; return nd_int(); }
FILE *popen(const char *c, const char *m) { (void) c; (void) m; OS_OP(JANET_SANDBOX_SUBPROCESS); vf_op_count++; return NULL; }
int execv(const char *p, char *const a[]) { (void) p; (void) a; OS_OP(JANET_SANDBOX_SUBPROCESS); vf_op_count++; return -1; }
int execve(const char *p, char *const a[], char *const e[]) { (void) p; (void) a; (void) e; OS_OP(JANET_SANDBOX_SUBPROCESS); vf_op_count++; return -1; }
int execvp(const char *p, char *const a[]) { (void) p; (void) a; OS_OP(JANET_SANDBOX_SUBPROCESS); vf_op_count++; return -1; }
int execvpe(const char *p, char *const a[], char *const e[]) { (void) p; (void) a; (void) e; OS_OP(JANET_SANDBOX_SUBPROCESS); vf_op_count++; return -1; }
int posix_spawn(pid_t *pid, const char *p, const posix_spawn_file_actions_t *fa, const posix_spawnattr_t *at, char *const a[], char *const e[]) {
    (void) pid; (void) p; (void) fa; (void) at; (void) a; (void) e; OS_OP(JANET_SANDBOX_SUBPROCESS); vf_op_count++; return 1; }
int posix_spawnp(pid_t *pid, const char *p, const posix_spawn_file_actions_t *fa, const posix_spawnattr_t *at, char *const a[], char *const e[]) {
    (void) pid; (void) p; (void) fa; (void) at; (void) a; (void) e; OS_OP(JANET_SANDBOX_SUBPROCESS); vf_op_count++; return 1; }
/* ---------------- environment ---------------- */
char *getenv(const char *n) { (void) n; OS_OP(JANET_SANDBOX_ENV); vf_op_count++; return NULL; }
int setenv(const char *n, const char *v, int o) { (void) n; (void) v; (void) o; OS_OP(JANET_SANDBOX_ENV); vf_op_count++; return nd_int(); }
int unsetenv(const char *n) { (void) n; OS_OP(JANET_SANDBOX_ENV); vf_op_count++; return nd_int(); }
/* ---------------- dynamic modules / signals / network ---------------- */
#ifdef SB_UNIT_ffi
void *dlopen(const char *f, int fl) { (void) f; (void) fl; OS_OP(JANET_SANDBOX_FFI_DEFINE); vf_op_count++; return NULL; }
void *dlsym(void *h, const char *n) { (void) h; (void) n; OS_OP(JANET_SANDBOX_FFI_DEFINE); vf_op_count++; return NULL; }
#include <sys/mman.h>
void *mmap(void *a, size_t l, int prot, int fl, int fd, off_t o) { (void) a; (void) l; (void) fl; (void) fd; (void) o; if (prot & PROT_EXEC) OS_OP(JANET_SANDBOX_FFI_JIT); vf_op_count++; return MAP_FAILED; }
int mprotect(void *a, size_t l, int prot) { (void) a; (void) l; if (prot & PROT_EXEC) OS_OP(JANET_SANDBOX_FFI_JIT); vf_op_count++; return -1; }
#else
void *dlopen(const char *f, int fl) { (void) f; (void) fl; OS_OP(JANET_SANDBOX_DYNAMIC_MODULES); vf_op_count++; return NULL; }
void *dlsym(void *h, const char *n) { (void) h; (void) n; OS_OP(JANET_SANDBOX_DYNAMIC_MODULES); vf_op_count++; return NULL; }
#endif
int sigaction(int s, const struct sigaction *a, struct sigaction *o) { (void) s; (void) a; (void) o; OS_OP(JANET_SANDBOX_SIGNAL); vf_op_count++; return nd_int(); }
int connect(int fd, const struct sockaddr *a, socklen_t l) { (void) fd; (void) a; (void) l; OS_OP(JANET_SANDBOX_NET_CONNECT); vf_op_count++; return nd_int(); }
#define OS_OP_ANYNET() VF_ASSERT((janet_vm.sandbox_flags & JANET_SANDBOX_NET) != JANET_SANDBOX_NET, "network operation reached although both net capabilities are disabled")
/* bind/socket/getaddrinfo serve both outgoing (bind-before-connect) and listening sockets: a violation only when both net kinds are disabled */
int bind(int fd, const struct sockaddr *a, socklen_t l) { (void) fd; (void) a; (void) l; OS_OP_ANYNET(); vf_op_count++; return nd_int(); }
int socket(int d, int t, int p) { (void) d; (void) t; (void) p; OS_OP_ANYNET(); vf_op_count++; return nd_int(); }
int getaddrinfo(const char *n, const char *sv, const struct addrinfo *h, struct addrinfo **res) { (void) n; (void) sv; (void) h; (void) res; OS_OP_ANYNET(); vf_op_count++; return 1; /* lookup fails: list traversal is not the subject */ }
int accept(int fd, struct sockaddr *a, socklen_t *l) { (void) fd; (void) a; (void) l; return -1; }
int accept4(int fd, struct sockaddr *a, socklen_t *l, int f) { (void) fd; (void) a; (void) l; (void) f; return -1; }
int snprintf(char *str, size_t size, const char *format, ...) { (void) format; if (size) str[0] = 0; return 0; }
int listen(int fd, int n) { (void) fd; (void) n; OS_OP(JANET_SANDBOX_NET_LISTEN); vf_op_count++; return nd_int(); }

/* ---------------- argument accessors: arbitrary values ---------------- */
static struct { JanetStringHead head; uint8_t data[4]; } sb_str[4];
static int sb_str_i;
static const uint8_t *sb_string(void) {
    int i = sb_str_i++ & 3;
    int32_t n = vf_range(0, 3);
    sb_str[i].head.length = n;
    sb_str[i].head.hash = vf_i32();
    for (int k = 0; k < 3; k++) sb_str[i].data[k] = (k < n) ? vf_u8() : 0;
    for (int k = 0; k < 3; k++) if (k < n) VF_ASSUME(sb_str[i].data[k] != 0);
    sb_str[i].data[3] = 0;
    return sb_str[i].data;
}
const char *janet_getcstring(const Janet *argv, int32_t n) { (void) argv; (void) n; return (const char *) sb_string(); }
const char *janet_getcbytes(const Janet *argv, int32_t n) { (void) argv; (void) n; return (const char *) sb_string(); }
const char *janet_optcstring(const Janet *argv, int32_t argc, int32_t n, const char *dflt) { (void) argv; return (n < argc && vf_bool()) ? (const char *) sb_string() : dflt; }
const char *janet_optcbytes(const Janet *argv, int32_t argc, int32_t n, const char *dflt) { (void) argv; return (n < argc && vf_bool()) ? (const char *) sb_string() : dflt; }
JanetString janet_getstring(const Janet *argv, int32_t n) { (void) argv; (void) n; return sb_string(); }
JanetKeyword janet_getkeyword(const Janet *argv, int32_t n) { (void) argv; (void) n; return sb_string(); }
JanetSymbol janet_getsymbol(const Janet *argv, int32_t n) { (void) argv; (void) n; return sb_string(); }
JanetKeyword janet_optkeyword(const Janet *argv, int32_t argc, int32_t n, JanetKeyword dflt) { (void) argv; return (n < argc && vf_bool()) ? sb_string() : dflt; }
JanetString janet_optstring(const Janet *argv, int32_t argc, int32_t n, JanetString dflt) { (void) argv; return (n < argc && vf_bool()) ? sb_string() : dflt; }
double janet_getnumber(const Janet *argv, int32_t n) { (void) argv; (void) n; return vf_f64(); }
double janet_optnumber(const Janet *argv, int32_t argc, int32_t n, double dflt) { (void) argv; return (n < argc && vf_bool()) ? vf_f64() : dflt; }
int32_t janet_getinteger(const Janet *argv, int32_t n) { (void) argv; (void) n; return vf_i32(); }
int32_t janet_optinteger(const Janet *argv, int32_t argc, int32_t n, int32_t dflt) { (void) argv; return (n < argc && vf_bool()) ? vf_i32() : dflt; }
int32_t janet_getnat(const Janet *argv, int32_t n) { (void) argv; (void) n; int32_t v = vf_i32(); VF_ASSUME(v >= 0); return v; }
int32_t janet_optnat(const Janet *argv, int32_t argc, int32_t n, int32_t dflt) { (void) argv; if (n < argc && vf_bool()) { int32_t v = vf_i32(); VF_ASSUME(v >= 0); return v; } return dflt; }
int64_t janet_getinteger64(const Janet *argv, int32_t n) { (void) argv; (void) n; return vf_i64(); }
uint64_t janet_getuinteger64(const Janet *argv, int32_t n) { (void) argv; (void) n; return vf_u64(); }
int64_t janet_optinteger64(const Janet *argv, int32_t argc, int32_t n, int64_t dflt) { (void) argv; return (n < argc && vf_bool()) ? vf_i64() : dflt; }
size_t janet_getsize(const Janet *argv, int32_t n) { (void) argv; (void) n; return (size_t) vf_u64(); }
size_t janet_optsize(const Janet *argv, int32_t argc, int32_t n, size_t dflt) { (void) argv; return (n < argc && vf_bool()) ? (size_t) vf_u64() : dflt; }
int janet_getboolean(const Janet *argv, int32_t n) { (void) argv; (void) n; return vf_bool(); }
int janet_optboolean(const Janet *argv, int32_t argc, int32_t n, int dflt) { (void) argv; return (n < argc && vf_bool()) ? vf_bool() : dflt; }
uint64_t janet_getflags(const Janet *argv, int32_t n, const char *flags) { (void) argv; (void) n; (void) flags; return vf_u64(); }
void janet_arity(int32_t arity, int32_t min, int32_t max) { if (arity < min || (max >= 0 && arity > max)) janet_panic("arity"); }
void janet_fixarity(int32_t arity, int32_t fix) { if (arity != fix) janet_panic("arity"); }
JanetByteView janet_getbytes(const Janet *argv, int32_t n) { (void) argv; (void) n; JanetByteView v; v.bytes = sb_string(); v.len = janet_string_length(v.bytes); return v; }

/* ---------------- object arguments: one arbitrary object of each kind ---------------- */
static long long sb_abstract_store[64];      /* abstract payload: 512 arbitrary bytes (JanetProc, JanetFile, JanetStream ...) */
static int sb_abstract_init;
static void *sb_abstract(void) {
    if (!sb_abstract_init) { sb_abstract_init = 1; for (int i = 0; i < 64; i++) sb_abstract_store[i] = vf_i64(); }
    return sb_abstract_store;
}
void *janet_getabstract(const Janet *argv, int32_t n, const JanetAbstractType *at) { (void) argv; (void) n; (void) at; return sb_abstract(); }
void *janet_optabstract(const Janet *argv, int32_t argc, int32_t n, const JanetAbstractType *at, void *dflt) { (void) argv; (void) at; return (n < argc && vf_bool()) ? sb_abstract() : dflt; }
void *janet_checkabstract(Janet x, const JanetAbstractType *at) { (void) x; (void) at; return vf_bool() ? sb_abstract() : NULL; }
static uint8_t sb_bufdata[8];
static JanetBuffer sb_buffer;
JanetBuffer *janet_getbuffer(const Janet *argv, int32_t n) { (void) argv; (void) n; sb_buffer.data = sb_bufdata; sb_buffer.capacity = 8; sb_buffer.count = vf_range(0, 8); return &sb_buffer; }
JanetBuffer *janet_optbuffer(const Janet *argv, int32_t argc, int32_t n, int32_t dflt_len) { (void) argc; (void) dflt_len; return janet_getbuffer(argv, n); }
JanetBuffer *janet_buffer(int32_t cap) { (void) cap; return janet_getbuffer(NULL, 0); }
void janet_buffer_setcount(JanetBuffer *b, int32_t c) { (void) b; (void) c; }
void janet_buffer_extra(JanetBuffer *b, int32_t n) { (void) b; (void) n; }
void janet_buffer_ensure(JanetBuffer *b, int32_t c, int32_t g) { (void) b; (void) c; (void) g; }
void janet_buffer_push_bytes(JanetBuffer *b, const uint8_t *s, int32_t l) { (void) b; (void) s; (void) l; }
void janet_buffer_push_cstring(JanetBuffer *b, const char *s) { (void) b; (void) s; }
void janet_buffer_push_u8(JanetBuffer *b, uint8_t x) { (void) b; (void) x; }
static Janet sb_arrdata[2];
static JanetArray sb_array;
JanetArray *janet_getarray(const Janet *argv, int32_t n) { (void) argv; (void) n; sb_array.data = sb_arrdata; sb_array.capacity = 2; sb_array.count = vf_range(0, 2); return &sb_array; }
JanetArray *janet_array(int32_t cap) { (void) cap; return janet_getarray(NULL, 0); }
void janet_array_push(JanetArray *a, Janet x) { (void) a; (void) x; }
static JanetTable sb_table;
JanetTable *janet_gettable(const Janet *argv, int32_t n) { (void) argv; (void) n; return &sb_table; }
JanetTable *janet_table(int32_t cap) { (void) cap; return &sb_table; }
void janet_table_put(JanetTable *t, Janet k, Janet v) { (void) t; (void) k; (void) v; }
Janet janet_table_get(JanetTable *t, Janet k) { (void) t; (void) k; return janet_wrap_nil(); }
JanetView janet_getindexed(const Janet *argv, int32_t n) { (void) argv; (void) n; JanetView v; sb_arrdata[0] = janet_wrap_string(sb_string()); sb_arrdata[1] = janet_wrap_string(sb_string()); v.items = sb_arrdata; v.len = vf_range(0, 2); return v; }
JanetDictView janet_getdictionary(const Janet *argv, int32_t n) { (void) argv; (void) n; JanetDictView v; v.kvs = NULL; v.len = 0; v.cap = 0; return v; }
Janet janet_dictionary_get(const JanetKV *data, int32_t cap, Janet key) { (void) data; (void) cap; (void) key; return janet_wrap_nil(); }
const JanetKV *janet_dictionary_next(const JanetKV *kvs, int32_t cap, const JanetKV *kv) { (void) kvs; (void) cap; (void) kv; return NULL; }
static FILE sb_file;
#ifndef SB_UNIT_io
FILE *janet_getfile(const Janet *argv, int32_t n, int32_t *flags) { (void) argv; (void) n; if (flags) *flags = vf_i32(); return &sb_file; }
#endif
JanetFunction *janet_optfunction(const Janet *argv, int32_t argc, int32_t n, JanetFunction *dflt) { (void) argv; (void) argc; (void) n; return dflt; }
int janet_keyeq(Janet x, const char *cstring) { (void) x; (void) cstring; return vf_bool(); }
int janet_streq(Janet x, const char *cstring) { (void) x; (void) cstring; return vf_bool(); }
int janet_symeq(Janet x, const char *cstring) { (void) x; (void) cstring; return vf_bool(); }
#ifndef SB_UNIT_io
FILE *janet_dynfile(const char *name, FILE *def) { (void) name; return def; }
#endif
JanetFunction *janet_getfunction(const Janet *argv, int32_t n) { (void) argv; (void) n; return NULL; }
JanetFiber *janet_getfiber(const Janet *argv, int32_t n) { (void) argv; (void) n; return NULL; }
void *janet_getpointer(const Janet *argv, int32_t n) { (void) argv; (void) n; return NULL; }

#ifndef SB_UNIT_ev
/* ---------------- runtime services that are not the subject ---------------- */
void janet_await(void) { VF_CUT(); while (1) {} }
void janet_ev_threaded_call(JanetThreadedSubroutine fp, JanetEVGenericMessage arguments, JanetThreadedCallback cb) { (void) fp; (void) arguments; (void) cb; }
void janet_ev_threaded_await(JanetThreadedSubroutine fp, int tag, int argi, void *argp) { (void) fp; (void) tag; (void) argi; (void) argp; VF_CUT(); while (1) {} }
void janet_gcroot(Janet x) { (void) x; }
int janet_gcunroot(Janet x) { (void) x; return 1; }
JanetFiber *janet_root_fiber(void) { return NULL; }
JanetFiber *janet_current_fiber(void) { return NULL; }
static JanetStream sb_stream;
JanetStream *janet_stream(JanetHandle handle, uint32_t flags, const JanetMethod *methods) { (void) handle; (void) flags; (void) methods; return &sb_stream; }
JanetStream *janet_stream_ext(JanetHandle handle, uint32_t flags, const JanetMethod *methods, size_t size) { (void) handle; (void) flags; (void) methods; (void) size; return &sb_stream; }
void janet_stream_close(JanetStream *s) { (void) s; }
int janet_make_pipe(JanetHandle handles[2], int mode) { (void) handles; (void) mode; return vf_i32(); }
int janet_cryptorand(uint8_t *out, size_t n) { (void) out; (void) n; return vf_i32(); }
void janet_deinit(void) { }
void janet_schedule(JanetFiber *f, Janet v) { (void) f; (void) v; }
void janet_cancel(JanetFiber *f, Janet v) { (void) f; (void) v; }
void janet_ev_inc_refcount(void) { }
void janet_ev_dec_refcount(void) { }
#endif
void *janet_smalloc(size_t n) { void *p = malloc(n ? n : 1); return p; }
void janet_sfree(void *p) { (void) p; }
const Janet *janet_tuple_n(const Janet *values, int32_t n) { (void) n; return values; }
JanetKV *janet_struct_begin(int32_t count) { (void) count; static JanetKV kv[2]; return kv; }
void janet_struct_put(JanetKV *st, Janet key, Janet value) { (void) st; (void) key; (void) value; }
const JanetKV *janet_struct_end(JanetKV *st) { return st; }
void *janet_abstract(const JanetAbstractType *at, size_t size) { (void) at; (void) size; return sb_abstract(); }
static char *sb_environ[2];
char **environ = sb_environ;

/* ---------------- result constructors: results are not the subject ---------------- */
static struct { JanetStringHead head; uint8_t data[4]; } sb_res;
JanetString janet_cstring(const char *s) { (void) s; return sb_res.data; }
JanetString janet_string(const uint8_t *s, int32_t n) { (void) s; (void) n; return sb_res.data; }
JanetSymbol janet_csymbol(const char *s) { (void) s; return sb_res.data; }
JanetSymbol janet_symbol(const uint8_t *s, int32_t n) { (void) s; (void) n; return sb_res.data; }
const char *janet_strerror(int e) { (void) e; return "err"; }
#ifndef SB_UNIT_ev
Janet janet_ev_lasterr(void) { return janet_wrap_nil(); }
#endif

#endif
