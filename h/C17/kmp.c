/* VF
{
 "defines": ["-DJANET_NO_NANBOX"],
 "units": [],
 "backend": "cadical",
 "timeout": 400,
 "mem_gb": 4,
 "cases_py": "kmp_cases.py",
 "functions_encoded": ["string.c: kmp_init, kmp_next, kmp_seti, kmp_deinit (the search engine behind string/find, find-all, replace, replace-all, split)"],
 "asserted": ["S1: for every text and pattern of the given lengths (every byte arbitrary, NUL and high bytes included) and every start offset, successive kmp_next calls report exactly the positions at which the pattern occurs (in increasing order, overlapping occurrences included) and then -1 — compared with the naive definition; no access outside text/pattern/lookup table (CBMC checks)"],
 "bounds": ["text length <= 7, pattern length 1..5 (lengths concrete per case, all combinations with pattern <= text + 1), all 256^(T+P) contents"],
 "stubs": ["janet_calloc = calloc", "janet_panic family = end of path"],
 "outside_claim": ["longer texts/patterns", "the cfunction wrappers' argument decoding and result construction (replace/split assemble buffers from these positions)"]
}
VF */
#include "vf_stubs.h"
#include "string.c"

#ifndef VF_T
#error case macros missing
#endif
void harness(void) {
    uint8_t *text = malloc(VF_T ? VF_T : 1), *pat = malloc(VF_P);
#ifndef VF_REPLAY
    __CPROVER_assume(text && pat);
#endif
    for (int i = 0; i < VF_T; i++) text[i] = vf_u8();
    for (int i = 0; i < VF_P; i++) pat[i] = vf_u8();
    struct kmp_state st;
    kmp_init(&st, text, VF_T, pat, VF_P);
    int32_t start = vf_range(0, VF_T);
    kmp_seti(&st, start);
    /* naive reference: all occurrence positions >= start */
    int32_t want[VF_T + 1]; int nw = 0;
    for (int32_t p = start; p + VF_P <= VF_T; p++) {
        int ok = 1;
        for (int k = 0; k < VF_P; k++) if (text[p + k] != pat[k]) ok = 0;
        if (ok) want[nw++] = p;
    }
    for (int k = 0; k <= VF_T; k++) {
        int32_t r = kmp_next(&st);
        if (k < nw) VF_ASSERT(r == want[k], "search reports a position that differs from the next real occurrence");
        else { VF_ASSERT(r == -1, "search reports a match where the pattern does not occur"); break; }
    }
    kmp_deinit(&st);
    VF_WITNESS("kmp end");
}
