"""C15: generates, with the compiler of the current tree, the bytecode of every route of every specialised function
and one harness per (function, arity)."""
import os, json

OPS_ARITH = ["+", "-", "*", "/", "div", "mod", "%"]
OPS_BIT = ["band", "bor", "bxor", "blshift", "brshift", "brushift"]
OPS_CMP = ["<", ">", "<=", ">=", "=", "not="]

TEMPLATE = r'''/* VF
%(hdr)s
VF */
#include <janet.h>
#include "%(gen)s"
#include "vf_vm.h"

/* routes: 0 inline, 1 apply, 2 first-class value, 3.. immediate-constant variants */
void harness(void) {
    vf_vm_init();
    vf_gen_init();
    Janet argv[%(nargs_max)d];
    for (int i = 0; i < %(nargs)d; i++) { double d = vf_num(); %(assume)s
#ifdef VF_LASTCONST
      if (i == %(nargs)d - 1 && i > 0) d = VF_LASTCONST;
#endif
      argv[i] = janet_wrap_number(d); }
    JanetSignal sa, sb;
    Janet ra = vf_run(vf_funcs[VF_A], %(nargs)d, argv, &sa);
#ifdef VF_EXCLUDE_KNOWN
    %(exclude)s
#endif
    /* route A returned (normally or with an error value): route B must behave the same and must not raise where A did not */
    vf_panic_is_violation = 1;
    Janet rb = vf_run(vf_funcs[VF_B], %(nargs)d, argv, &sb);
    VF_ASSERT(sa == sb, "routes disagree on success / error");
    VF_ASSERT(vf_same(ra, rb), "routes return different results");

    VF_WITNESS("both routes completed");
}
'''

def prepare(tier, vf):
    gendir = os.path.join(vf.BUILD, "gen", vf.tree_hash(), "C15")
    hdir = os.path.join(gendir, "h")
    os.makedirs(hdir, exist_ok=True)
    for f in os.listdir(hdir):
        os.remove(os.path.join(hdir, f))
    harnesses = []
    info = {"functions": [], "routes": ["inline (f a b ..)", "(apply f [a b ..])", "the function value f itself invoked with the arguments (first-class use)", "splice (f ;[a b ..])"]}
    ops = OPS_ARITH + OPS_BIT + OPS_CMP
    for op in ops:
        if tier == "quick":
            arities = [1, 2] if op in OPS_ARITH else [2]
        else:
            arities = [0, 1, 2, 3, 4, 5]
        for n in arities:
            if op in ("blshift", "brshift", "brushift") and n < 2:
                continue
            args = " ".join("a%d" % i for i in range(n))
            # route 2 is the function VALUE itself (what a first-class call or apply ends up invoking)
            src = "[(fn [%s] (%s %s))\n (fn [%s] (apply %s [%s]))\n %s\n (fn [%s] (%s ;[%s]))]\n" % (args, op, args, args, op, args, op, args, op, args)
            safe = {"+": "add", "-": "sub", "*": "mul", "/": "div", "%": "rem", "<": "lt", ">": "gt", "<=": "lte", ">=": "gte", "=": "eq", "not=": "neq"}.get(op, op)
            gen = os.path.join(gendir, "%s_%d.h" % (safe, n))
            try:
                vf.fdump(src, gen)
            except vf.BuildError as ex:
                info.setdefault("skipped", []).append("%s/%d: %s" % (op, n, str(ex)[:200]))
                continue
            cases = []
            for a, b in ((0, 2), (2, 0), (0, 1), (0, 3)):
                cases.append({"name": "r%d_r%d" % (a, b), "D": ["-DVF_A=%d" % a, "-DVF_B=%d" % b]})
                if op in ("*", "/", "div", "mod", "%") and n >= 2:
                    for ci, cv in enumerate(("2.0", "-1.0", "0.0", "0.5", "(1.0/0.0)", "(0.0/0.0)", "-3.0")):
                        cases.append({"name": "r%d_r%d_lastconst%d" % (a, b, ci), "D": ["-DVF_A=%d" % a, "-DVF_B=%d" % b, "-DVF_FULL_DOUBLES", "-DVF_LASTCONST=%s" % cv],
                                      "tier": "quick" if (a, b) == (0, 2) and ci < 4 else "thorough", "timeout": 300})
                full_ok = op in ("+", "-", "<", ">", "<=", ">=", "=", "not=") and n <= 2
                cases.append({"name": "r%d_r%d_alldoubles" % (a, b), "D": ["-DVF_A=%d" % a, "-DVF_B=%d" % b, "-DVF_FULL_DOUBLES"],
                              "tier": "quick" if (full_ok and (a, b) in ((0, 2), (2, 0))) else "thorough", "timeout": 600, "timeout_thorough": 1800})
            assume = ""
            if op in OPS_BIT:
                assume = ""    # out-of-range operands raise in every route: covered
            exclude = ""
            if op == "-" and n == 1:
                exclude = "{ union { double d; uint64_t u; } z; z.d = janet_unwrap_number(argv[0]); if (z.u == 0) VF_CUT(); /* known finding F4: (- +0.0) */ }"
            hdr = {
                "defines": ["-DJANET_NO_NANBOX"],
                "units": ["vm.c", "fiber.c", "value.c", "wrap.c", "state.c", "util.c", "tuple.c", "array.c"],
                "remove_bodies": ["safe_memcpy", "janet_binop_call", "janet_mcall", "janet_getmethod", "janet_sandbox", "janet_sandbox_assert", "janet_init", "janet_deinit"],
                "cbmc": ["--no-built-in-assertions", "--paths", "lifo"],
                "no_body_deny_re": "^(janet_(fiber|continue|call|in|get|put|next|length|binop|mcall|tuple|array|struct|table)|run_vm)",
                "backend": "cadical", "unwind": 24, "unwind_functions": {"run_vm": 80, "memcpy": 140, "memmove": 140}, "timeout": 300, "mem_gb": 4,
                "cases": cases,
                "functions_encoded": ["vm.c: run_vm, janet_continue, janet_continue_no_check, janet_check_can_resume, janet_binop_call, vm arithmetic macros", "fiber.c: janet_fiber, janet_fiber_funcframe, janet_fiber_funcframe_tail, janet_fiber_push*, janet_fiber_popframe", "compile.c/specials.c/cfuns.c/emit.c/corelib.c of the current tree run concretely to produce the bytecode (fdump)"],
                "asserted": ["for every specialised operator and arity, the inline route, (apply f [...]), the first-class function value and the spliced call agree on success/error and return bit-identical results (all NaNs identified) for ALL number operands"],
                "bounds": ["operators + - * / div mod %% band bor bxor blshift brshift brushift < > <= >= = not=; arities 1-3 (quick) / 0-5 (thorough); operands: a 20-entry table of boundary doubles (+-0, +-1, 0.5, +-inf, NaN, +-1e308, int32/uint32/2^53 bounds, immediates 255/-129) with the entry chosen by the solver for every operator; ALL doubles for + - and the comparators at arity <= 2; for * / div mod % additionally all doubles x a concrete last operand"],
                "stubs": ["GC allocation = malloc, collection disabled", "janet_panic family: ends the path in route A, is a failed obligation in route B", "_setjmp returns 0"],
                "outside_claim": ["non-number operands (method dispatch on tables/abstracts), argument evaluation order, get/in/put/length/next/resume/yield/error routes (separate harnesses if listed)", "error message text"],
            }
            hp = os.path.join(hdir, "ops_%s_%d.c" % (safe, n))
            open(hp, "w").write(TEMPLATE % {"hdr": json.dumps(hdr, indent=1), "gen": gen, "nargs": n, "nargs_max": max(n, 1), "assume": assume, "exclude": exclude})
            harnesses.append(hp)
            info["functions"].append("%s/%d" % (op, n))
    return {"harnesses": harnesses, "info": info}
