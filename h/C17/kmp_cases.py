def cases(tier, hdr, path):
    out = []
    for T in range(0, 8):
        for P in range(1, 6):
            if P > T + 1:
                continue
            q = "quick" if (T, P) in ((3, 1), (4, 2), (5, 3), (6, 3), (7, 4), (6, 4), (5, 2)) else "thorough"
            out.append({"name": "t%d_p%d" % (T, P), "D": ["-DVF_T=%d" % T, "-DVF_P=%d" % P], "unwind": 2 * T + 4, "tier": q, "cost": T * P})
    return out
