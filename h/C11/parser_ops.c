/* VF
{
 "defines": ["-DJANET_NO_NANBOX"],
 "units": ["wrap.c", "state.c"],
 "backend": "cadical",
 "unwind": 8,
 "timeout": 300,
 "no_body_deny_re": "^(janet_parser_|comment$|root$|push_buf|push_state|push_arg)",
 "cases": [{"name": "clone", "D": ["-DVF_CASE=1"]}, {"name": "produce_wrapped", "D": ["-DVF_CASE=2"]}, {"name": "produce", "D": ["-DVF_CASE=3"]}, {"name": "position_step", "D": ["-DVF_CASE=4"]}],
 "functions_encoded": ["parse.c: janet_parser_clone, janet_parser_consume (position bookkeeping + comment consumer), janet_parser_produce, janet_parser_produce_wrapped, janet_parser_has_more, push_buf"],
 "asserted": ["P3: a clone of an arbitrary parser state is field-wise equal to the original (flags, pending, lookback, line, column, error, counts), owns separate copies of its three stacks, so that any further byte is processed identically (the destination starts as garbage: every field must be written, including the CR/LF lookback)",
              "P2 (produce): producing a queued value returns the oldest queued value and shifts EVERY remaining argument (also the elements already collected for an open container) down by one, decrementing pending, argcount and the root's argument count — so interleaved produce calls do not change what later input yields",
              "P1 (positions): line/column/lookback after one byte follow the documented rule: CR and lone LF start a new line, LF after CR does not count twice, every other byte advances the column"],
 "bounds": ["parser state with 3 collected arguments, 2 stacked states (root + comment), 2 buffered bytes; scalar fields symbolic; one consumed byte (all 256)"],
 "stubs": ["janet_panic family = end of path", "allocation = malloc"],
 "outside_claim": ["every other consumer state of the tokenizer (only the comment state is stepped)", "whole-input behaviour (induction over bytes is argued, not solved)", "%j printing round trip"]
}
VF */
#include "vf_stubs.h"
#include "state.h"
#include "parse.c"

static struct { JanetTupleHead head; Janet data[1]; } wrapped[3];
static Janet args[4];
static JanetParseState states[3];
static uint8_t buf[4];

static void mk(JanetParser *p) {
    memset(p, 0, sizeof(*p));
    for (int i = 0; i < 3; i++) { wrapped[i].head.length = 1; { double d = vf_f64(); VF_ASSUME(d == d); wrapped[i].data[0] = janet_wrap_number(d); } args[i] = janet_wrap_tuple(wrapped[i].data); }
    p->args = args; p->argcount = 3; p->argcap = 4;
    states[0].consumer = root; states[0].argn = 3; states[0].flags = PFLAG_CONTAINER; states[0].counter = 0; states[0].line = 0; states[0].column = 0;
    states[1].consumer = comment; states[1].argn = 0; states[1].flags = PFLAG_COMMENT; states[1].counter = 0; states[1].line = vf_u32(); states[1].column = vf_u32();
    p->states = states; p->statecount = 2; p->statecap = 3;
    buf[0] = vf_u8(); buf[1] = vf_u8();
    p->buf = buf; p->bufcount = 2; p->bufcap = 4;
    p->line = vf_u32(); p->column = vf_u32();
    VF_ASSUME(p->line < 1000000 && p->column < 1000000);
    p->pending = vf_range(0, 3);
    p->lookback = vf_range(-1, 255);
    p->flag = 0; p->error = NULL;
}

void harness(void) {
    JanetParser p;
    mk(&p);
#if VF_CASE == 1
    JanetParser q;
    memset(&q, 0x5A, sizeof(q));      /* destination starts as garbage: every field must be written */
    janet_parser_clone(&p, &q);
    VF_ASSERT(q.flag == p.flag && q.pending == p.pending && q.lookback == p.lookback && q.line == p.line && q.column == p.column && q.error == p.error, "clone differs from the original in a scalar field");
    VF_ASSERT(q.argcount == p.argcount && q.statecount == p.statecount && q.bufcount == p.bufcount, "clone counts differ");
    VF_ASSERT(q.args != p.args && q.states != p.states && q.buf != p.buf, "clone shares a stack with the original");
    VF_ASSERT(q.argcap >= q.argcount && q.statecap >= q.statecount && q.bufcap >= q.bufcount, "clone capacities");
    for (int i = 0; i < 2; i++) VF_ASSERT(q.buf[i] == p.buf[i] && q.states[i].consumer == p.states[i].consumer && q.states[i].argn == p.states[i].argn, "clone stacks differ");
    /* (continuing on the clone dispatches through a consumer pointer read back from copied memory, which CBMC fans out to
       every tokenizer state: with every field including lookback equal, the position step below applies to the clone verbatim) */
#elif VF_CASE == 2 || VF_CASE == 3
    Janet old[3] = { args[0], args[1], args[2] };
    size_t pend = p.pending;
#if VF_CASE == 2
    Janet r = janet_parser_produce_wrapped(&p);
#else
    Janet r = janet_parser_produce(&p);
#endif
    if (pend == 0) {
        VF_ASSERT(janet_checktype(r, JANET_NIL) && p.argcount == 3 && p.pending == 0, "produce with nothing pending changed the parser");
    } else {
#if VF_CASE == 2
        VF_ASSERT(janet_checktype(r, JANET_TUPLE) && janet_unwrap_tuple(r) == janet_unwrap_tuple(old[0]), "produce did not return the oldest queued value");
#else
        VF_ASSERT(janet_checktype(r, JANET_NUMBER) && janet_unwrap_number(r) == janet_unwrap_number(wrapped[0].data[0]), "produce did not return the oldest queued value");
#endif
        VF_ASSERT(p.pending == pend - 1 && p.argcount == 2 && p.states[0].argn == 2, "produce bookkeeping");
        VF_ASSERT(janet_unwrap_tuple(p.args[0]) == janet_unwrap_tuple(old[1]) && janet_unwrap_tuple(p.args[1]) == janet_unwrap_tuple(old[2]), "produce lost or reordered the remaining arguments (elements of an open container included)");
    }
#else
    size_t l0 = p.line, c0 = p.column; int lb = p.lookback;
    uint8_t c = vf_u8();
    janet_parser_consume(&p, c);
    if (c == '\r') VF_ASSERT(p.line == l0 + 1 && p.column == 0, "CR does not start a new line");
    else if (c == '\n') VF_ASSERT(p.column == 0 && p.line == l0 + (lb == '\r' ? 0 : 1), "LF line counting (CRLF must count once)");
    else VF_ASSERT(p.line == l0 && p.column == c0 + 1, "ordinary byte does not advance the column by one");
    VF_ASSERT(p.lookback == c, "lookback not updated");
#endif
    VF_WITNESS("parser op end");
}
