/* VF
{
 "defines": ["-DJANET_NO_NANBOX"],
 "units": ["value.c", "util.c", "wrap.c", "state.c", "string.c", "tuple.c"],
 "backend": "cadical",
 "unwind": 6,
 "timeout": 300,
 "cases_py": "value_laws_cases.py",
 "functions_encoded": ["value.c: janet_equals, janet_hash, janet_compare, traversal_next, push_traversal_node", "util.c: janet_string_calchash, janet_array_calchash, janet_hash_mix", "string.c: janet_string_compare, janet_string_equal", "tuple.c: (layout only; tuples are built by the harness with hash from the real janet_array_calchash)"],
 "asserted": ["V1: on nil, booleans, all non-NaN numbers, strings/symbols/keywords of <= 2 arbitrary bytes (hash field from the real calchash) and tuples of <= 2 such scalars (both bracket kinds): = is reflexive and symmetric; x = y implies hash x = hash y; compare is antisymmetric; compare = 0 iff =; -0 = +0 with equal hashes; values of different types are ordered by type",
              "transitivity of = and of compare <= on every triple of the listed kinds",
              "V2: two separately built tuples with equal contents are = (content, not identity)"],
 "bounds": ["strings <= 2 bytes, tuples <= 2 elements of scalar kinds, one nesting level; type kinds concrete per case (all pairs; triples: same-kind and mixed)"],
 "stubs": ["janet_panic family = end of path", "realloc of the traversal stack = malloc (first use)"],
 "outside_claim": ["NaN (excluded by the property)", "deeper nesting, longer strings (hash is a byte loop)", "structs (layout canonicity is V3), abstract types"]
}
VF */
#include "vf_stubs.h"
#include "state.h"
#include "util.h"
#include <math.h>

#define K_NIL 0
#define K_BOOL 1
#define K_NUM 2
#define K_STR 3
#define K_SYM 4
#define K_TUP 5

static struct { JanetStringHead head; uint8_t data[3]; } strs[6];
static struct { JanetTupleHead head; Janet data[2]; } tups[3];
static int nstr, ntup;

static Janet mk_scalar(int kind) {
    if (kind == K_NIL) return janet_wrap_nil();
    if (kind == K_BOOL) return janet_wrap_boolean(vf_bool());
    if (kind == K_NUM) { double d = vf_f64(); VF_ASSUME(d == d); return janet_wrap_number(d); }
    int i = nstr++;
    int32_t len = vf_range(0, 2);
    strs[i].head.length = len;
    for (int k = 0; k < 2; k++) strs[i].data[k] = vf_u8();
    strs[i].data[2] = 0;
    strs[i].head.hash = janet_string_calchash(strs[i].data, len);
    if (kind == K_SYM) {
        /* interning invariant (V4): two distinct symbol objects never have the same bytes */
        for (int j = 0; j < i; j++) if (strs[j].head.gc.flags == 1)
            VF_ASSUME(!(strs[j].head.length == len && (len < 1 || strs[j].data[0] == strs[i].data[0]) && (len < 2 || strs[j].data[1] == strs[i].data[1])));
        strs[i].head.gc.flags = 1;   /* harness-private mark: this object is a symbol */
    }
    return kind == K_STR ? janet_wrap_string(strs[i].data) : janet_wrap_symbol(strs[i].data);
}
static Janet mk(int kind, int ek) {
    if (kind != K_TUP) return mk_scalar(kind);
    int i = ntup++;
#ifdef VF_TLEN
    int32_t len = VF_TLEN;       /* tuple length concrete per case */
#else
    int32_t len = vf_range(0, 2);
#endif
    tups[i].head.length = len;
    tups[i].head.gc.flags = vf_bool() ? JANET_TUPLE_FLAG_BRACKETCTOR : 0;
    tups[i].head.sm_line = -1; tups[i].head.sm_column = -1;
    for (int k = 0; k < 2; k++) tups[i].data[k] = mk_scalar(ek);
    tups[i].head.hash = janet_array_calchash(tups[i].data, len);
    return janet_wrap_tuple(tups[i].data);
}
static int sgn(int c) { return c < 0 ? -1 : (c > 0 ? 1 : 0); }

void harness(void) {
    janet_vm.traversal = NULL; janet_vm.traversal_base = NULL; janet_vm.traversal_top = NULL;
    Janet x = mk(VF_KX, VF_EK), y = mk(VF_KY, VF_EK);
    int exy = janet_equals(x, y), eyx = janet_equals(y, x);
    int cxy = janet_compare(x, y), cyx = janet_compare(y, x);
    VF_ASSERT(janet_equals(x, x), "= is not reflexive");
    VF_ASSERT(janet_compare(x, x) == 0, "compare x x is not 0");
    VF_ASSERT(exy == eyx, "= is not symmetric");
    VF_ASSERT(sgn(cxy) == -sgn(cyx), "compare is not antisymmetric");
    VF_ASSERT((cxy == 0) == (exy != 0), "compare = 0 and = disagree");
    if (exy) VF_ASSERT(janet_hash(x) == janet_hash(y), "equal values with different hashes");
#if VF_KX != VF_KY
    VF_ASSERT(!exy, "values of different types are equal");
    VF_ASSERT(sgn(cxy) == ((janet_type(x) < janet_type(y)) ? -1 : 1), "values of different types are not ordered by type");
#endif
#ifdef VF_KZ
    Janet z = mk(VF_KZ, VF_EK);
    int eyz = janet_equals(y, z), exz = janet_equals(x, z);
    int cyz = janet_compare(y, z), cxz = janet_compare(x, z);
    if (exy && eyz) VF_ASSERT(exz, "= is not transitive");
    if (cxy <= 0 && cyz <= 0) VF_ASSERT(cxz <= 0, "compare is not transitive");
    if (cxy < 0 && cyz <= 0) VF_ASSERT(cxz < 0, "compare is not transitive (strict)");
#endif
    VF_WITNESS("laws end");
}
