import itertools
def shapes(cap, slots, maxload):
    out = []
    for combo in itertools.product("ETL", repeat=len(slots)):
        if sum(1 for c in combo if c != "E") > maxload:
            continue
        s = ["E"] * cap
        for i, c in zip(slots, combo):
            s[i] = c
        out.append("".join(s))
    return out

QUICK_PUT4 = ("EEEE", "LEEE", "ELEE", "LLEE", "LTEE", "TLEE", "EELL", "LEEL", "TEEL", "TTEE", "ETLE", "LEET")
QUICK_INV4 = ("LLEE", "TLEE")
QUICK_PUT8 = ("TLEEEELL", "TLEEEEEL", "LEEEEETL", "TEEEEELE")

def cases(tier, hdr, path):
    out = []
    sh4 = shapes(4, [0, 1, 2, 3], 2)
    sh8 = shapes(8, [6, 7, 0, 1], 4)
    for cap, shs in ((4, sh4), (8, sh8)):
        for s in shs:
            for op, on in ((0, "put"), (1, "remove")):
                for chk, cn in (("", "lookup"), ("-DVF_CHECK_INV", "inv")):
                    t = "thorough"
                    ne = len(s) - s.count("E")
                    if cap == 4:
                        if on == "remove" and cn == "lookup":
                            t = "quick"
                        if on == "put" and cn == "lookup" and s in QUICK_PUT4:
                            t = "quick"
                        if on == "put" and cn == "inv" and s in QUICK_INV4:
                            t = "quick"
                    else:
                        wrap = (s[6] != "E" or s[7] != "E") and s[0] != "E"
                        if on == "remove" and cn == "lookup" and wrap:
                            t = "quick"
                        if on == "put" and cn == "lookup" and s in QUICK_PUT8:
                            t = "quick"
                    D = ["-DVF_CAP=%d" % cap, "-DVF_SHAPE=\"%s\"" % s, "-DVF_OP=%d" % op] + ([chk] if chk else [])
                    out.append({"name": "c%d_%s_%s_%s" % (cap, s, on, cn), "D": D, "tier": t, "cost": cap * (3 if on == "put" else 1),
                                "timeout": 600, "timeout_thorough": 1200})
    return out
