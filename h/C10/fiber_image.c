/* VF
{
 "defines": ["-DJANET_NO_NANBOX"],
 "units": ["fiber.c", "bytecode.c", "value.c", "wrap.c", "state.c", "util.c", "tuple.c", "array.c", "struct.c", "table.c", "buffer.c", "string.c", "vector.c"],
 "remove_bodies": ["janet_binop_call", "janet_mcall", "janet_getmethod", "janet_sandbox", "janet_sandbox_assert", "janet_init", "janet_deinit", "janet_in", "janet_get", "janet_put", "janet_next", "janet_length", "janet_lengthv", "janet_getindex", "janet_putindex", "janet_compare", "janet_equals", "janet_hash", "call_nonfn", "janet_call", "janet_pcall", "janet_symbol", "janet_csymbol", "janet_to_string", "janet_to_string_b", "janet_table_put", "janet_table_get", "janet_struct_put", "janet_struct_end", "janet_struct_begin", "janet_formatc"],
 "remove_bodies_after_link": ["unmarshal_one_abstract", "marshal_one"],
 "allow_no_body": ["unmarshal_one_abstract", "marshal_one", "janet_formatc"],
 "no_body_deny_re": "^(janet_verify|unmarshal_one$|unmarshal_one_def|unmarshal_one_env|unmarshal_one_fiber|janet_unmarshal_u32s|readint|readnat|janet_v_|janet_fiber_status)",
 "cbmc": ["--no-undefined-shift-check", "--no-signed-overflow-check", "--no-div-by-zero-check"],
 "cbmc_remove": ["--signed-overflow-check", "--div-by-zero-check", "--undefined-shift-check"],
 "backend": "cadical",
 "unwind": 6,
 "unwind_functions": {"janet_verify": 4, "unmarshal_one_fiber": 26, "harness": 26},
 "timeout": 400,
 "mem_gb": 8,
 "cases_py": "fiber_image_cases.py",
 "functions_encoded": ["marsh.c: unmarshal_one_fiber, unmarshal_one (fiber and function cases), unmarshal_one_def, readint, readnat", "bytecode.c: janet_verify", "fiber.h: janet_fiber_status"],
 "asserted": ["U4: a fiber image whose frame offset, stack start, previous-frame offset, pc offset and frame flags are ARBITRARY small integers (frame offset, stack start and stack top: a grid of boundary combinations, they size allocations and loops - E16/E24) is either rejected or yields a fiber that satisfies the invariant every fiber operation relies on: frame >= 4, frame + slotcount + 4 == stackstart <= stacktop <= capacity, the frame record lies inside the stack, its function is the image's, its pc lies inside that function's bytecode, the frame chain ends at 0; the reader itself touches nothing outside the objects it allocates (CBMC dereference/bounds checks, exactly-sized stack)"],
 "bounds": ["frame in {0,3,4,6}, stack start in frame+{4..7}, stack top in start+{-1,0,2}: concrete per case; one frame record in the image (a non-zero previous-frame offset makes the reader look for a second record, which the image does not contain: that path ends at end-of-input); integers 0..127 (written in the 5-byte encoding so that offsets are literal - E24); function: 2 slots, 2 instructions, no environments; maxstack 2^31-1"],
 "stubs": ["GC/scratch allocation = malloc/realloc (typed where the size is a type's)", "janet_panic family = end of path", "abstract reader has no body (not reached)"],
 "outside_claim": ["frames with environments, child fibers, fiber environments tables, several frames", "32-bit magnitudes (signed overflow in frame + JANET_FRAME_SIZE is formal UB and wraps in practice; read by hand: the size check that follows rejects it)"]
}
VF */
#include <janet.h>
#include "features.h"
#include "vf_stubs.h"
#include "state.h"
#include "gc.h"
#include "fiber.h"
#include <setjmp.h>
/* typed allocations of exactly the requested size (E23) */
struct vf_fn { JanetFunction f; };
static size_t vf_fn_size;
void *janet_gcalloc(enum JanetMemoryType type, size_t size) {
    JanetGCObject *p;
    if (type == JANET_MEMORY_FUNCTION) vf_fn_size = size;
    if (type == JANET_MEMORY_FUNCTION && size == sizeof(struct vf_fn)) { struct vf_fn *q = malloc(sizeof(struct vf_fn)); p = (JanetGCObject *) q; }
    else if (type == JANET_MEMORY_FUNCDEF && size == sizeof(JanetFuncDef)) { JanetFuncDef *q = malloc(sizeof(JanetFuncDef)); p = (JanetGCObject *) q; }
    else if (type == JANET_MEMORY_FUNCENV && size == sizeof(JanetFuncEnv)) { JanetFuncEnv *q = malloc(sizeof(JanetFuncEnv)); p = (JanetGCObject *) q; }
    else if (type == JANET_MEMORY_FIBER && size == sizeof(JanetFiber)) { JanetFiber *q = malloc(sizeof(JanetFiber)); p = (JanetGCObject *) q; }
    else p = malloc(size);
#ifndef VF_REPLAY
    __CPROVER_assume(p != 0);
#endif
    p->flags = type; p->data.next = NULL;
    return p;
}
void *janet_srealloc(void *p, size_t n) { void *q = realloc(p, n); VF_ASSUME(q != NULL); return q; }
void *janet_smalloc(size_t n) { void *q = malloc(n ? n : 1); VF_ASSUME(q != NULL); return q; }
void janet_sfree(void *p) { free(p); }
void janet_gcpressure(size_t s) { (void) s; }
void janet_collect(void) { }
void janet_fiber_did_resume(JanetFiber *fiber) { (void) fiber; }
#ifndef VF_REPLAY
int _setjmp(jmp_buf env) { (void) env; return 0; }
#endif

#include "marsh.c"
/* symbolic integers go in the fixed 5-byte form so that every later offset is literal (E24) */
#define VF_PUT5(v) do { img[n++] = LB_INTEGER; img[n++] = 0; img[n++] = 0; img[n++] = 0; img[n++] = (v); } while (0)
void harness(void) {
    janet_vm.traversal = NULL; janet_vm.traversal_base = NULL; janet_vm.traversal_top = NULL;
    janet_vm.stackn = 0; janet_vm.fiber = NULL; janet_vm.root_fiber = NULL; janet_vm.signal_buf = NULL; janet_vm.return_reg = NULL;
    janet_vm.coerce_error = 0; janet_vm.gc_interval = 0x7FFFFFFF; janet_vm.next_collection = 0; janet_vm.gc_suspend = 1; janet_vm.auto_suspend = 0;
    uint8_t img[64];     /* at most 64 elements: CBMC keeps each byte separately (E23) */ int n = 0;
    uint8_t frame = VF_FRAME, sstart = VF_SSTART, stop = VF_STOP, prevframe = vf_u8(), pcdiff = vf_u8(), frameflags = vf_u8();
    VF_ASSUME(prevframe < 128 && pcdiff < 128);
    VF_ASSUME(frameflags < 128 && !(frameflags & JANET_STACKFRAME_HASENV));
    img[n++] = LB_FIBER;
    img[n++] = LB_INTEGER; img[n++] = 0x00; img[n++] = 0x03; img[n++] = 0x00; img[n++] = 0x08;      /* flags: pending status, yield mask */
    img[n++] = frame; img[n++] = sstart; img[n++] = stop;
    img[n++] = LB_INTEGER; img[n++] = 0x7F; img[n++] = 0xFF; img[n++] = 0xFF; img[n++] = 0xFF;      /* maxstack */
    VF_PUT5(frameflags); VF_PUT5(prevframe); VF_PUT5(pcdiff);
    /* the frame's function: no environments, 2 slots, (return-nil) (return-nil) */
    img[n++] = LB_FUNCTION; img[n++] = 0;
    img[n++] = 0; img[n++] = 2; img[n++] = 0; img[n++] = 0; img[n++] = 0; img[n++] = 0; img[n++] = 2;
    img[n++] = JOP_RETURN_NIL; img[n++] = 0; img[n++] = 0; img[n++] = 0;
    img[n++] = JOP_RETURN_NIL; img[n++] = 0; img[n++] = 0; img[n++] = 0;
    img[n++] = LB_NIL; img[n++] = LB_NIL;             /* the two slots */
    img[n++] = LB_NIL;                                /* last value */
    UnmarshalState st; memset(&st, 0, sizeof(st));
    st.start = img; st.end = img + n;
    Janet fv;
    VF_WITNESS("image built");
    (void) unmarshal_one(&st, img, &fv, 0);
#if VF_VALID
    VF_WITNESS("image accepted");
#endif
    VF_ASSERT(janet_checktype(fv, JANET_FIBER), "fiber expected");
    JanetFiber *f = janet_unwrap_fiber(fv);
    VF_ASSERT(f->data != NULL && f->capacity >= f->stacktop && f->stacktop >= f->stackstart, "stack pointers outside the allocated stack");
    VF_ASSERT(f->frame >= JANET_FRAME_SIZE, "a resumable fiber without a stack frame: resume reads the frame record before the stack");
    VF_ASSERT(f->stackstart == f->frame + 2 + JANET_FRAME_SIZE, "slots of the frame and the next frame header do not add up");
    VF_ASSERT(f->frame + 2 <= f->capacity, "frame slots outside the stack");
    JanetStackFrame *fr = (JanetStackFrame *)(f->data + f->frame - JANET_FRAME_SIZE);
    int32_t pv = fr->prevframe;
    VF_ASSERT(pv == 0, "frame chain does not end (the image holds one frame)");
    VF_ASSERT(pcdiff < 2, "pc outside the function's bytecode");
    VF_ASSERT(f->frame == frame && f->stackstart == sstart && f->stacktop == stop, "fields differ from the image");
}
