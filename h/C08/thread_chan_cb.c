/* VF
{
 "defines": ["-DJANET_NO_NANBOX"],
 "units": ["wrap.c", "state.c", "fiber.c"],
 "remove_bodies": ["janet_fiber_funcframe", "janet_fiber_funcframe_tail", "janet_fiber_cframe", "janet_fiber_push", "janet_fiber_pushn", "janet_fiber_push2", "janet_fiber_push3", "janet_fiber_setcapacity", "janet_fiber_popframe", "janet_fiber", "janet_fiber_reset", "janet_env_detach", "janet_env_valid", "janet_env_maybe_detach"],
 "cbmc": ["--no-built-in-assertions"],
 "no_body_deny_re": "^(janet_thread_chan_cb|janet_schedule|janet_q_|janet_ev_post_event|write$)",
 "backend": "cadical",
 "unwind": 6,
 "timeout": 300,
 "cases": [{"name": "nr0", "D": ["-DVF_NR=0"]}, {"name": "nr1", "D": ["-DVF_NR=1"]}, {"name": "nr2", "D": ["-DVF_NR=2"]}],
 "functions_encoded": ["ev.c: janet_thread_chan_cb (arrival of a cross-thread channel hand-off in the receiving thread), janet_q_pop, janet_q_push_head, janet_schedule_general"],
 "asserted": ["L2: when a hand-off reaches its target fiber and the fiber is still waiting (generation matches) it is scheduled exactly once with the value (take), [:take ch x] (select), the channel (give) or nil (close) — in the form its OWN registration asked for; when the target has moved on, a taken value is passed to the next pending reader, tagged with THAT reader's mode and generation, exactly once, or — if no reader is pending — goes back to the front of the channel's item queue: it is never dropped and never duplicated",
              "L1 (lock discipline): the channel lock is taken once and released once on every path"],
 "bounds": ["0..2 further pending readers, message mode and generations symbolic, value an arbitrary number (packing of other values is marsh.c's job)"],
 "stubs": ["write on the self-pipe = recording stub (the real janet_ev_post_event runs)", "janet_os_mutex_lock/unlock = held counter", "marshal/unmarshal inert (numbers pass through packing unchanged)", "janet_panic family = end of path"],
 "outside_claim": ["OS thread interleavings, memory model, marshalling of the payload in transit, thread start/teardown, reference counts of threaded abstracts"]
}
VF */
#include "features.h"
#include "vf_stubs.h"
#include "state.h"
static Janet vf_tuple_store[4];
Janet *janet_tuple_begin(int32_t length) { (void) length; return vf_tuple_store; }
const Janet *janet_tuple_end(Janet *tuple) { return tuple; }
const uint8_t *janet_csymbol(const char *s) { (void) s; return (const uint8_t *) "k"; }
void janet_table_put(JanetTable *t, Janet k, Janet v) { (void) t; (void) k; (void) v; }
static int vf_held, vf_locks, vf_unlocks;
void janet_os_mutex_lock(JanetOSMutex *m) { (void) m; VF_ASSERT(!vf_held, "lock taken twice"); vf_held = 1; vf_locks++; }
void janet_os_mutex_unlock(JanetOSMutex *m) { (void) m; VF_ASSERT(vf_held, "unlock without lock"); vf_held = 0; vf_unlocks++; }
#include <unistd.h>
#include "ev.c"
/* the real janet_ev_post_event writes one JanetSelfPipeEvent to the target VM's self-pipe: the write stub records it */
static int vf_posts; static JanetEVGenericMessage vf_posted; static int vf_posted_fd; static JanetCallback vf_posted_cb;
ssize_t write(int fd, const void *p, size_t n) {
    VF_ASSERT(n == sizeof(JanetSelfPipeEvent), "posted event size");
    const JanetSelfPipeEvent *e = p;
    vf_posts++; vf_posted = e->msg; vf_posted_cb = e->cb; vf_posted_fd = fd;
    return (ssize_t) n;
}

static JanetFiber F[3];
static JanetVM othervm;
static struct { JanetAbstractHead head; JanetChannel ch; } chbox;
static int32_t ntask(void) { return janet_q_count(&janet_vm.spawn); }
static JanetTask *task_at(int k) { JanetQueue *q = &janet_vm.spawn; return ((JanetTask *) q->data) + ((q->head + k) % q->capacity); }

void harness(void) {
    JanetChannel *ch = &chbox.ch; memset(ch, 0, sizeof(*ch));
    ch->is_threaded = 1; ch->limit = 4;
    janet_vm.spawn.data = malloc(sizeof(JanetTask) * 8); janet_vm.spawn.capacity = 8; janet_vm.spawn.head = 0; janet_vm.spawn.tail = 0;
    Janet *idata = malloc(sizeof(Janet) * 8);
    JanetChannelPending *rdata = malloc(sizeof(JanetChannelPending) * 4), *wdata = malloc(sizeof(JanetChannelPending) * 4);
#ifndef VF_REPLAY
    __CPROVER_assume(janet_vm.spawn.data && idata && rdata && wdata);
#endif
    ch->items.data = idata; ch->items.capacity = 8; ch->items.head = 2; ch->items.tail = 3; idata[2] = janet_wrap_number(555);   /* one later item already queued */
    JanetChannelPending rp[2];
    for (int i = 0; i < VF_NR; i++) { rp[i].thread = &othervm; rp[i].fiber = &F[1 + i]; rp[i].sched_id = vf_u32(); rp[i].mode = vf_bool() ? JANET_CP_MODE_READ : JANET_CP_MODE_CHOICE_READ; rdata[i] = rp[i]; }
    ch->read_pending.data = rdata; ch->read_pending.capacity = 4; ch->read_pending.head = 0; ch->read_pending.tail = VF_NR;
    ch->write_pending.data = wdata; ch->write_pending.capacity = 4; ch->write_pending.head = 0; ch->write_pending.tail = 0;
    othervm.selfpipe[1] = 77; janet_vm.selfpipe[1] = 11;
    for (int i = 0; i < 3; i++) { F[i].sched_id = vf_u32(); F[i].flags = JANET_STATUS_PENDING << JANET_FIBER_STATUS_OFFSET; F[i].gc.flags = 0; }
    double xv = vf_f64(); VF_ASSUME(xv == xv);
    JanetEVGenericMessage m; memset(&m, 0, sizeof(m));
    int mode = vf_bool() ? JANET_CP_MODE_READ : JANET_CP_MODE_CHOICE_READ;
    m.tag = mode; m.fiber = &F[0]; m.argi = (int32_t) vf_u32(); m.argp = ch; m.argj = janet_wrap_number(xv);
    int live = F[0].sched_id == (uint32_t) m.argi;
    VF_WITNESS("hand-off arrives");
    janet_thread_chan_cb(m);
    VF_ASSERT(vf_locks == 1 && vf_unlocks == 1 && !vf_held, "channel lock not taken and released exactly once");
    if (live) {
        VF_ASSERT(ntask() == 1 && task_at(0)->fiber == &F[0] && vf_posts == 0, "a live target was not scheduled exactly once");
        if (mode == JANET_CP_MODE_READ) VF_ASSERT(janet_checktype(task_at(0)->value, JANET_NUMBER) && janet_unwrap_number(task_at(0)->value) == xv, "take receives a different value than the one sent");
        else VF_ASSERT(janet_checktype(task_at(0)->value, JANET_TUPLE), "select receives something other than a [:take ch x] tuple");
        VF_ASSERT(janet_q_count(&ch->items) == 1, "item queue touched");
    } else {
        VF_ASSERT(ntask() == 0, "a fiber that has moved on was resumed by a stale hand-off");
#if VF_NR > 0
        VF_ASSERT(vf_posts == 1 && vf_posted.fiber == rp[0].fiber && (uint32_t) vf_posted.argi == rp[0].sched_id && vf_posted_fd == 77 && vf_posted_cb == janet_thread_chan_cb, "the value was not forwarded exactly once to the next pending reader");
        VF_ASSERT(vf_posted.tag == (int) rp[0].mode, "the forwarded hand-off carries the stale entry's mode instead of the new reader's (a plain take would receive a select tuple or vice versa)");
        VF_ASSERT(janet_checktype(vf_posted.argj, JANET_NUMBER) && janet_unwrap_number(vf_posted.argj) == xv, "forwarded value altered");
        VF_ASSERT(janet_q_count(&ch->read_pending) == VF_NR - 1, "reader queue after forwarding");
#else
        VF_ASSERT(vf_posts == 0, "posted to nobody");
        VF_ASSERT(janet_q_count(&ch->items) == 2 && janet_checktype(((Janet *) ch->items.data)[ch->items.head], JANET_NUMBER) && janet_unwrap_number(((Janet *) ch->items.data)[ch->items.head]) == xv,
                  "a value handed to a receiver that is no longer waiting was dropped: it is neither delivered, nor forwarded, nor put back at the front of the channel");
#endif
    }
    VF_WITNESS("hand-off handled");
}
