/* vf_tagsplit.h — E3: semantics-preserving wrappers for janet_equals / janet_hash / janet_compare.
 * The real function is called INSIDE each case of a switch on the operands' type tags, after re-assigning the
 * (already equal) constant tag, so that on every path CBMC executes the real function with constant tags
 * (a re-assignment before a join would become symbolic again).  Calling units are compiled with
 * -Djanet_equals=vf_equals -Djanet_hash=vf_hash -Djanet_compare=vf_compare; value.c is compiled unrenamed.
 * The harness defines VF_TAGLIST(X) as the list of tags of its value domain; any other tag reaching a
 * wrapper is a failed obligation. */
#ifndef VF_TAGSPLIT_H
#define VF_TAGSPLIT_H
#include <janet.h>
#include "vf.h"
#undef janet_equals
#undef janet_hash
#undef janet_compare
int janet_equals(Janet x, Janet y);
int32_t janet_hash(Janet x);
int janet_compare(Janet x, Janet y);

#ifndef VF_TAGLIST
#define VF_TAGLIST(X) X(JANET_NUMBER)
#define VF_TAGLIST2(X) X(JANET_NUMBER)
#endif
/* VF_TAGLIST2 must list the same tags as VF_TAGLIST (a macro cannot expand inside itself) */

#define VF_EQ_INNER(T2) case T2: y.type = T2; return janet_equals(x, y);
#define VF_EQ_OUTER(T1) case T1: x.type = T1; switch (y.type) { VF_TAGLIST2(VF_EQ_INNER) default: break; } break;
int vf_equals(Janet x, Janet y) {
    switch (x.type) { VF_TAGLIST(VF_EQ_OUTER) default: break; }
    VF_UNREACHABLE("value type outside the harness domain reached janet_equals");
    return 0;
}
#define VF_CMP_INNER(T2) case T2: y.type = T2; return janet_compare(x, y);
#define VF_CMP_OUTER(T1) case T1: x.type = T1; switch (y.type) { VF_TAGLIST2(VF_CMP_INNER) default: break; } break;
int vf_compare(Janet x, Janet y) {
    switch (x.type) { VF_TAGLIST(VF_CMP_OUTER) default: break; }
    VF_UNREACHABLE("value type outside the harness domain reached janet_compare");
    return 0;
}
#ifndef VF_ABSTRACT_HASH
#define VF_HASH_CASE(T1) case T1: x.type = T1; return janet_hash(x);
int32_t vf_hash(Janet x) {
    switch (x.type) { VF_TAGLIST(VF_HASH_CASE) default: break; }
    VF_UNREACHABLE("value type outside the harness domain reached janet_hash");
    return 0;
}
#endif
#endif
