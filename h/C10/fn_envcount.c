/* VF
{
 "defines": ["-DJANET_NO_NANBOX"],
 "units": ["bytecode.c", "value.c", "wrap.c", "state.c", "util.c", "tuple.c", "array.c", "struct.c", "table.c", "buffer.c", "string.c", "vector.c"],
 "remove_bodies": ["janet_binop_call", "janet_mcall", "janet_getmethod", "janet_sandbox", "janet_sandbox_assert", "janet_init", "janet_deinit", "janet_in", "janet_get", "janet_put", "janet_next", "janet_length", "janet_lengthv", "janet_getindex", "janet_putindex", "janet_compare", "janet_equals", "janet_hash", "call_nonfn", "janet_call", "janet_pcall", "janet_symbol", "janet_csymbol", "janet_to_string", "janet_to_string_b", "janet_table_put", "janet_table_get", "janet_struct_put", "janet_struct_end", "janet_struct_begin", "janet_formatc"],
 "remove_bodies_after_link": ["unmarshal_one_fiber", "unmarshal_one_abstract", "marshal_one"],
 "allow_no_body": ["unmarshal_one_fiber", "unmarshal_one_abstract", "marshal_one", "janet_formatc"],
 "no_body_deny_re": "^(janet_verify|unmarshal_one$|unmarshal_one_def|unmarshal_one_env|janet_unmarshal_u32s|readint|readnat|janet_v_)",
 "cbmc": ["--no-undefined-shift-check", "--no-signed-overflow-check", "--no-div-by-zero-check"],
 "cbmc_remove": ["--signed-overflow-check", "--div-by-zero-check", "--undefined-shift-check"],
 "backend": "cadical",
 "unwind": 6,
 "unwind_functions": {"janet_verify": 4},
 "timeout": 400,
 "mem_gb": 8,
 "cases": [{"name": "len0_def1", "D": ["-DVF_LEN=0", "-DVF_E=1"]}, {"name": "len1_def1", "D": ["-DVF_LEN=1", "-DVF_E=1"]}, {"name": "len1_def2", "D": ["-DVF_LEN=1", "-DVF_E=2"]}, {"name": "len2_def1", "D": ["-DVF_LEN=2", "-DVF_E=1"]}, {"name": "len2_def2", "D": ["-DVF_LEN=2", "-DVF_E=2"]}],
 "functions_encoded": ["marsh.c: unmarshal_one (function case), unmarshal_one_def, unmarshal_one_env, janet_unmarshal_u32s, readint, readnat", "bytecode.c: janet_verify (called by unmarshal_one_def)", "(the interpreter step on a function satisfying the invariant asserted here is vm_step.c)"],
 "asserted": ["U4: a function image that declares VF_LEN closure environments around a definition that declares VF_E of them (ARBITRARY environment and slot index bytes in its load-upvalue instruction) is either rejected or yields a function object that satisfies the invariant the interpreter relies on (vm.c checks eindex only against def->environments_length): the object has room for def->environments_length environment pointers and each of them points at an environment the reader created. vm_step.c decides the interpreter step from every function with that invariant"],
 "bounds": ["image layout concrete (counts are case dimensions, E24), the two index bytes of the instruction symbolic; environments are detached with one nil value"],
 "stubs": ["GC/scratch allocation = malloc/realloc", "janet_panic family = end of path", "_setjmp returns 0", "fiber and abstract readers have no body (not reached by this image)"],
 "outside_claim": ["other funcdef sections (constants, nested defs, symbol map, source map, closure bitset)", "environments that point at fibers (env_marker.c)"]
}
VF */
#include <janet.h>
#include "features.h"
#include "vf_stubs.h"
#include "state.h"
#include "gc.h"
#include "fiber.h"
#include <setjmp.h>
/* typed allocations of exactly the requested size (E23) */
#if VF_LEN > 0
struct vf_fn { JanetFunction f; JanetFuncEnv *envs[4 * VF_LEN]; };      /* unmarshal asks for len * sizeof(JanetFuncEnv) bytes of environment pointers */
#else
struct vf_fn { JanetFunction f; };
#endif
static size_t vf_fn_size;
void *janet_gcalloc(enum JanetMemoryType type, size_t size) {
    JanetGCObject *p;
    if (type == JANET_MEMORY_FUNCTION) vf_fn_size = size;
    if (type == JANET_MEMORY_FUNCTION && size == sizeof(struct vf_fn)) { struct vf_fn *q = malloc(sizeof(struct vf_fn)); p = (JanetGCObject *) q; }
    else if (type == JANET_MEMORY_FUNCDEF && size == sizeof(JanetFuncDef)) { JanetFuncDef *q = malloc(sizeof(JanetFuncDef)); p = (JanetGCObject *) q; }
    else if (type == JANET_MEMORY_FUNCENV && size == sizeof(JanetFuncEnv)) { JanetFuncEnv *q = malloc(sizeof(JanetFuncEnv)); p = (JanetGCObject *) q; }
    else if (type == JANET_MEMORY_FIBER && size == sizeof(JanetFiber)) { JanetFiber *q = malloc(sizeof(JanetFiber)); p = (JanetGCObject *) q; }
    else p = malloc(size);
#ifndef VF_REPLAY
    __CPROVER_assume(p != 0);
#endif
    p->flags = type; p->data.next = NULL;
    return p;
}
void *janet_srealloc(void *p, size_t n) { void *q = realloc(p, n); VF_ASSUME(q != NULL); return q; }
void *janet_smalloc(size_t n) { void *q = malloc(n ? n : 1); VF_ASSUME(q != NULL); return q; }
void janet_sfree(void *p) { free(p); }
void janet_gcpressure(size_t s) { (void) s; }
void janet_collect(void) { }
void janet_fiber_did_resume(JanetFiber *fiber) { (void) fiber; }
#ifndef VF_REPLAY
int _setjmp(jmp_buf env) { (void) env; return 0; }
#endif

#include "marsh.c"
void harness(void) {
    janet_vm.traversal = NULL; janet_vm.traversal_base = NULL; janet_vm.traversal_top = NULL;
    janet_vm.stackn = 0; janet_vm.fiber = NULL; janet_vm.root_fiber = NULL; janet_vm.signal_buf = NULL; janet_vm.return_reg = NULL;
    janet_vm.coerce_error = 0; janet_vm.gc_interval = 0x7FFFFFFF; janet_vm.next_collection = 0; janet_vm.gc_suspend = 1; janet_vm.auto_suspend = 0;
    uint8_t img[64]; int n = 0;
    uint8_t eidx = vf_u8(), vidx = vf_u8();
    img[n++] = LB_FUNCTION; img[n++] = VF_LEN;
    /* funcdef: flags, slotcount, arity, min_arity, max_arity, constants_length, bytecode_length [, environments_length] */
#if VF_E > 0
    img[n++] = LB_INTEGER; img[n++] = 0x00; img[n++] = 0x40; img[n++] = 0x00; img[n++] = 0x00;      /* JANET_FUNCDEF_FLAG_HASENVS */
#else
    img[n++] = 0;
#endif
    img[n++] = 1; img[n++] = 0; img[n++] = 0; img[n++] = 0; img[n++] = 0; img[n++] = 2;
#if VF_E > 0
    img[n++] = VF_E;
#endif
    img[n++] = JOP_LOAD_UPVALUE; img[n++] = 0; img[n++] = eidx; img[n++] = vidx;      /* (load-upvalue 0 eidx vidx) */
    img[n++] = JOP_RETURN; img[n++] = 0; img[n++] = 0; img[n++] = 0;                   /* (return 0) */
    for (int i = 0; i < VF_E; i++) img[n++] = 0;                                       /* def->environments[i] */
    for (int i = 0; i < VF_LEN; i++) { img[n++] = 0; img[n++] = 1; img[n++] = LB_NIL; }   /* detached environment: offset 0, length 1, nil */
    img[n++] = LB_NIL;
    UnmarshalState st; memset(&st, 0, sizeof(st));
    st.start = img; st.end = img + n;
    Janet fv;
    VF_WITNESS("image built");
    (void) unmarshal_one(&st, img, &fv, 0);
    VF_ASSERT(janet_checktype(fv, JANET_FUNCTION), "function expected");
#if VF_LEN == VF_E
    VF_WITNESS("image accepted");
#endif
    JanetFunction *fn = janet_unwrap_function(fv);
    VF_ASSERT(fn->def != NULL && fn->def->environments_length == VF_E, "definition as written in the image");
    VF_ASSERT(vf_fn_size >= sizeof(JanetFunction) + sizeof(JanetFuncEnv *) * (size_t) fn->def->environments_length, "function object too small for the environments its definition declares (the interpreter indexes func->envs up to def->environments_length)");
    for (int i = 0; i < VF_E; i++) {
        int made = 0;
        for (int k = 0; k < janet_v_count(st.lookup_envs); k++) if (st.lookup_envs[k] == fn->envs[i]) made = 1;
        VF_ASSERT(made, "an environment pointer the interpreter may use was never set by the reader");
    }
}
