/* VF
{
 "defines": ["-DJANET_NO_NANBOX"],
 "units": ["fiber.c", "value.c", "wrap.c", "state.c", "util.c", "tuple.c", "array.c", "buffer.c", "table.c", "struct.c", "string.c"],
 "remove_bodies": ["janet_sandbox", "janet_sandbox_assert", "janet_init", "janet_deinit", "janet_in", "janet_get", "janet_put", "janet_next", "janet_length", "janet_lengthv", "janet_getindex", "janet_putindex", "janet_compare", "janet_equals", "janet_hash", "janet_call", "janet_pcall", "janet_symbol", "janet_csymbol", "janet_to_string", "janet_to_string_b", "janet_table_put", "janet_table_get", "janet_struct_put", "janet_struct_end", "janet_struct_begin", "janet_continue", "janet_continue_signal"],
 "no_body_deny_re": "^(janet_fiber$|janet_fiber_reset|janet_fiber_funcframe|janet_env_valid|unmarshal_one|readint|readnat)",
 "backend": "cadical",
 "unwind": 12,
 "unwind_functions": {"harness": 34},
 "timeout": 300,
 "mem_gb": 4,
 "tier": "thorough",
 "cases": [{"name": "foreign_fiber", "D": ["-DVF_OWNED=0"]}, {"name": "matching_frame", "D": ["-DVF_OWNED=1"]}],
 "functions_encoded": ["marsh.c: unmarshal_one_env, unmarshal_one (reference case), readint, readnat", "fiber.c: janet_env_valid, janet_fiber"],
 "asserted": ["U2: a closure environment read from an untrusted image with ARBITRARY offset and length integers that names a fiber carries the untrusted marker (offset <= 0) when unmarshal_one_env returns, so the interpreter's janet_env_valid check cannot be skipped", "U4: the real janet_env_valid, run on that environment, either rejects it and leaves an EMPTY environment (length 0, no values) or accepts it only when offset is the frame of the fiber that owns this very environment and length equals that frame's slot count, so offset+index stays inside the fiber's stack for every index below length", "an off-stack environment has a value array of exactly length > 0 slots"],
 "bounds": ["offset and length: any 32-bit integers (5-byte encoding); target fiber: one real frame with 2 slots"],
 "stubs": ["GC allocation = malloc", "janet_panic family = end of path", "the fiber is supplied through the image's reference table (real LB_REFERENCE path)"],
 "outside_claim": ["fibers that are themselves forged (unmarshal_one_fiber validation)", "funcdef field validation", "the interpreter's use of the environment after validation (thorough harness env_unmarshal)"]
}
VF */
#include <janet.h>
#include "features.h"
#include "vf_stubs.h"
#include "state.h"
#include "gc.h"
#include "fiber.h"
#include <setjmp.h>
void *janet_gcalloc(enum JanetMemoryType type, size_t size) {
    JanetGCObject *p = malloc(size);
#ifndef VF_REPLAY
    __CPROVER_assume(p != 0);
#endif
    memset(p, 0, size);
    p->flags = type; p->data.next = NULL;
    return p;
}
void janet_gcpressure(size_t s) { (void) s; }
void janet_collect(void) { }
void janet_fiber_did_resume(JanetFiber *fiber) { (void) fiber; }
#ifndef VF_REPLAY
int _setjmp(jmp_buf env) { (void) env; return 0; }
#endif
#include "marsh.c"

static uint32_t tbc[1] = { JOP_RETURN_NIL };
static JanetFuncDef tdef;
static struct { JanetFunction f; JanetFuncEnv *envs[1]; } tfn;

void harness(void) {
    janet_vm.traversal = NULL; janet_vm.traversal_base = NULL; janet_vm.traversal_top = NULL;
    janet_vm.stackn = 0; janet_vm.fiber = NULL; janet_vm.root_fiber = NULL; janet_vm.signal_buf = NULL; janet_vm.return_reg = NULL;
    janet_vm.coerce_error = 0; janet_vm.gc_interval = 0x7FFFFFFF; janet_vm.next_collection = 0; janet_vm.gc_suspend = 1; janet_vm.auto_suspend = 0;
    /* the fiber the image's environment points at: one real frame of a 2-slot function */
    tdef.bytecode = tbc; tdef.bytecode_length = 1; tdef.slotcount = 2; tdef.arity = 0; tdef.min_arity = 0; tdef.max_arity = 0;
    tfn.f.def = &tdef;
    JanetFiber *tf = janet_fiber(&tfn.f, 16, 0, NULL);
    VF_ASSERT(tf != NULL, "target fiber");
    for (int i = 0; i < 2; i++) tf->data[tf->frame + i] = janet_wrap_number(10 + i);
    /* untrusted image bytes of one funcenv: offset, length (arbitrary), then a reference to the fiber */
    uint8_t img[13];
    img[0] = LB_INTEGER; for (int i = 1; i < 5; i++) img[i] = vf_u8();
    img[5] = LB_INTEGER; for (int i = 6; i < 10; i++) img[i] = vf_u8();
    img[10] = LB_REFERENCE; img[11] = 0; img[12] = 0;
    UnmarshalState st; memset(&st, 0, sizeof(st));
    st.start = img; st.end = img + 12;
    st.lookup = NULL; janet_v_push(st.lookup, janet_wrap_fiber(tf));
    JanetFuncEnv *env = NULL;
    VF_WITNESS("env image about to be read");
    (void) unmarshal_one_env(&st, img, &env, 0);
    VF_ASSERT(env != NULL, "env produced");
    /* U2: whatever the image said, an environment that names a fiber is marked untrusted */
    VF_ASSERT(env->offset <= 0, "environment read from an image names a fiber stack but is not marked untrusted");
    if (env->offset == 0) {
        VF_ASSERT(env->length > 0 && env->as.values != NULL, "off-stack environment without values");
        VF_WITNESS("off-stack variant");
        return;
    }
    int32_t claimed = env->length;
    (void) claimed;
#if VF_OWNED
    /* the fiber's frame really belongs to this environment and has the matching slot count: the valid case */
    janet_stack_frame(tf->data + tf->frame)->env = env;
#endif
    int ok = janet_env_valid(env);
    if (ok) {
        VF_WITNESS("environment accepted");
        VF_ASSERT(VF_OWNED, "an environment the fiber does not own was accepted");
        VF_ASSERT(env->offset == tf->frame && env->length == 2, "accepted environment does not name the owning frame");
        VF_ASSERT(env->offset + env->length <= tf->capacity && env->offset + env->length <= tf->stacktop + JANET_FRAME_SIZE + 2, "accepted environment reaches outside the fiber stack");
    } else {
        VF_WITNESS("environment rejected");
        VF_ASSERT(env->offset == 0 && env->length == 0 && env->as.values == NULL, "rejected environment is not empty");
    }
}
