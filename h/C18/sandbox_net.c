/* VF
{
 "defines": ["-DJANET_NO_NANBOX"],
 "units": ["vm.c", "state.c", "wrap.c", "util.c"],
 "cbmc": ["--no-standard-checks", "--no-built-in-assertions"],
 "no_body_deny_re": "^_*(open|creat|fopen|freopen|fdopen|unlink|remove|rename|mkdir|rmdir|link|symlink|chmod|fchmod|chown|truncate|ftruncate|utime|mkfifo|mknod|stat|lstat|fstatat|access|readlink|realpath|opendir|scandir|chdir|tmpfile|mkstemp|mkdtemp|tmpnam|fork|vfork|exec|posix_spawn|system|popen|getenv|secure_getenv|setenv|putenv|unsetenv|clearenv|dlopen|dlsym|dlmopen|signal|sigaction|connect|bind|listen|accept|socket|getaddrinfo|mmap|mprotect|inotify|janet_sandbox)",
 "cbmc_remove": ["--signed-overflow-check", "--div-by-zero-check", "--undefined-shift-check"],
 "allow_no_body": ["sigprocmask","getcwd","getpid","isatty","nanosleep","umask","sched_getaffinity","__sched_cpucount","sysconf","time","clock_gettime","localtime_r","gmtime_r","localtime","gmtime","mktime","timegm","strftime","setlocale","fileno","kill","waitpid","pipe","close","fcntl","dup2","getrandom","arc4random_buf","read","write","_exit","exit","readdir","closedir","sigfillset","sigemptyset","sigaddset","pthread_sigmask","posix_spawn_file_actions_init","posix_spawn_file_actions_destroy","posix_spawn_file_actions_adddup2","posix_spawn_file_actions_addclose","posix_spawnattr_init","posix_spawnattr_destroy","posix_spawnattr_setflags","posix_spawnattr_setsigmask","strerror","fdopen","fclose"],
 "remove_bodies": ["run_vm", "janet_continue", "janet_continue_signal", "janet_call", "janet_pcall", "janet_mcall", "janet_init", "janet_deinit"],
 "unwind": 40,
 "unwindset": ["sb_abstract.0:66"],
 "timeout": 200,
 "cases_py": "sandbox_cases.py",
 "sb_cut_loops": ["janet_core_getline", "janet_core_range", "janet_core_expand_path"],
 "sb_thorough": ["cfun_ffi_signature", "cfun_ffi_buffer_write", "cfun_ffi_buffer_read", "cfun_ffi_struct"],
 "sb_unit": "net.c",
 "functions_encoded": ["net.c: every JANET_CORE_FN (list extracted from the source at check time)", "vm.c: janet_sandbox_assert"],
 "asserted": ["B1: for an arbitrary 32-bit sandbox flag word and arbitrary arguments, no path through the function reaches a libc operation whose capability bit is set in the flag word (OS_OP stubs: mkdir rmdir unlink remove rename link symlink chmod utime truncate = fs-write; stat lstat readlink realpath opendir chdir = fs-read; open/fopen by access mode; tmpfile mkstemp = fs-temp; fork exec* posix_spawn* system popen = subprocess; getenv setenv unsetenv = env; dlopen = dynamic modules; sigaction = signal; connect / bind listen = net)"],
 "bounds": ["functions listed in sb_cut_loops have an input-length loop that is explored for 40 iterations only, without unwinding assertion (no capability operation sits behind those loops); argc 0..4 symbolic; string arguments <= 3 symbolic bytes; loops over argument/env arrays unwound 6"],
 "stubs": ["every other body-less callee (libc or runtime service) is an inert nondeterministic stub, allowed only if its name does not match the capability deny-list regex (no_body_deny_re)", "libc capability operations = OS_OP assertions returning failure/arbitrary", "argument accessors janet_getX and janet_optX = arbitrary values", "result constructors = nil", "janet_panic family = end of path"],
 "outside_claim": ["operations on handles obtained before sandboxing (proc wait/kill, stream read/write)", "library code in boot.janet (reaches the OS only through these cfunctions)", "getcwd/time/isatty/sysconf (not capability kinds of the property's list)"]
}
VF */
#include "sb_body.h"
