/* VF
{
 "defines": ["-DJANET_NO_NANBOX"],
 "units": ["buffer.c", "capi.c", "wrap.c", "util.c", "state.c", "value.c"],
 "remove_bodies": ["janet_panicv","janet_panic","janet_panics","janet_panicf","janet_signalv","janet_panic_type","janet_panic_abstract", "janet_formatbv", "janet_formatb", "janet_formatc", "janet_description_b", "janet_to_string_b", "janet_pretty", "janet_in", "janet_get", "janet_put", "janet_next", "janet_compare", "janet_equals", "janet_hash", "janet_mcall", "janet_call", "janet_getindex", "janet_lengthv", "janet_putindex", "janet_buffer_format"],
 "backend": "cadical",
 "unwind": 20,
 "timeout": 300,
 "cases_py": "buffer_alias_cases.py",
 "functions_encoded": ["buffer.c: cfun_buffer_push, cfun_buffer_push_at, cfun_buffer_chars (buffer/push-string), cfun_buffer_blit, buffer_push_impl, janet_buffer_ensure, janet_buffer_push_bytes, janet_buffer_push_u8, janet_buffer_setcount, janet_buffer_extra", "capi.c: janet_getbuffer, janet_getbytes, janet_gethalfrange, janet_getinteger"],
 "asserted": ["S3: pushing a buffer onto itself (buffer/push, buffer/push-at, buffer/push-string) yields the old contents followed by (or overwritten at the index by) the OLD contents, also when the append crosses the capacity and the storage is reallocated — no read of the freed block (CBMC deallocated-object checks); blit with src == dest copies from the old contents for every dest/src offset (overlapping ranges included); count <= capacity afterwards"],
 "bounds": ["capacity 4 or 8, length 0..capacity (both concrete per case), contents arbitrary bytes; blit offsets concrete per case (0, 1, length and -1)"],
 "stubs": ["memcpy/memmove byte-wise C definitions (CBMC's built-ins lose copies of symbolic size)", "realloc always moves the block (CBMC model): the stale-pointer case is always exercised", "janet_gcpressure no-op", "janet_panic family = end of path"],
 "outside_claim": ["larger buffers", "buffer/format, bit operations, push-word family (separate obligations if listed)"]
}
VF */
#include "vf_stubs.h"
#include "state.h"
void janet_gcpressure(size_t s) { (void) s; }
void *memmove(void *d, const void *s, size_t n) {
    uint8_t *dd = d; const uint8_t *ss = s;
    VF_ASSERT(n <= 64, "copy size within the bound");
    if ((uintptr_t) dd < (uintptr_t) ss) { for (size_t i = 0; i < n; i++) dd[i] = ss[i]; }
    else { for (size_t i = n; i > 0; i--) dd[i - 1] = ss[i - 1]; }
    return d;
}
void *memcpy(void *d, const void *s, size_t n) {
    uint8_t *dd = d; const uint8_t *ss = s;
    VF_ASSERT(n <= 64, "copy size within the bound");
    for (size_t i = 0; i < n; i++) dd[i] = ss[i];
    return d;
}
#include "buffer.c"

#ifndef VF_CAPC
#error case macros missing
#endif
static uint8_t pre[VF_CAPC ? VF_CAPC : 1];

void harness(void) {
    JanetBuffer *b = malloc(sizeof(JanetBuffer));
#ifndef VF_REPLAY
    __CPROVER_assume(b != 0);
#endif
    b->gc.flags = 0; b->gc.data.next = NULL;
    b->capacity = VF_CAPC; b->count = VF_N;
    b->data = malloc(VF_CAPC);
#ifndef VF_REPLAY
    __CPROVER_assume(b->data != 0);
#endif
    for (int i = 0; i < VF_CAPC; i++) { pre[i] = vf_u8(); b->data[i] = pre[i]; }
    Janet self = janet_wrap_buffer(b);
    Janet argv[5] = { self, self, self, self, self };
#if VF_OP == 0          /* (buffer/push b b) */
    cfun_buffer_push(2, argv);
    VF_ASSERT(b->count == 2 * VF_N, "self push: length");
    for (int i = 0; i < VF_N; i++) { VF_ASSERT(b->data[i] == pre[i], "self push: prefix changed"); VF_ASSERT(b->data[VF_N + i] == pre[i], "self push: appended bytes are not the old contents"); }
#elif VF_OP == 1        /* (buffer/push-string b b) */
    cfun_buffer_chars(2, argv);
    VF_ASSERT(b->count == 2 * VF_N, "self push-string: length");
    for (int i = 0; i < VF_N; i++) { VF_ASSERT(b->data[i] == pre[i], "self push-string: prefix changed"); VF_ASSERT(b->data[VF_N + i] == pre[i], "self push-string: appended bytes are not the old contents"); }
#elif VF_OP == 2        /* (buffer/push-at b idx b) */
    int32_t idx = vf_i32();
    argv[1] = janet_wrap_number((double) idx);
    cfun_buffer_push_at(3, argv);
    VF_ASSERT(idx >= 0 && idx <= VF_N, "push-at accepted an out-of-range index");
    /* the source view is taken after count was set to idx: it is the first idx bytes */
    VF_ASSERT(b->count == (2 * idx > VF_N ? 2 * idx : VF_N), "self push-at: length");
    for (int i = 0; i < VF_N; i++) if (i < idx) { VF_ASSERT(b->data[i] == pre[i], "self push-at: prefix changed"); VF_ASSERT(b->data[idx + i] == pre[i], "self push-at: copied bytes are not the old contents"); }
#elif VF_OP == 3        /* (buffer/blit b b dest-start src-start) */
    int32_t od = VF_OD, os = VF_OS;   /* concrete per case: a symbolic offset makes the realloc size symbolic (solver memory) */
    argv[2] = janet_wrap_number((double) od); argv[3] = janet_wrap_number((double) os);
    cfun_buffer_blit(4, argv);
    int64_t d = od < 0 ? (int64_t) od + VF_N + 1 : od, s = os < 0 ? (int64_t) os + VF_N + 1 : os;
    VF_ASSERT(d >= 0 && d <= VF_N && s >= 0 && s <= VF_N, "blit accepted an out-of-range offset");
    int64_t len = VF_N - s;
    VF_ASSERT(b->count == (d + len > VF_N ? d + len : VF_N), "self blit: length");
    for (int i = 0; i < 2 * VF_CAPC; i++) if (i < b->count) {
        if (i >= d && i < d + len) VF_ASSERT(b->data[i] == pre[s + (i - d)], "self blit: copied bytes are not the OLD contents of the source range");
        else if (i < VF_N) VF_ASSERT(b->data[i] == pre[i], "self blit: bytes outside the destination range changed");
    }
#endif
    VF_ASSERT(b->count >= 0 && b->count <= b->capacity, "count outside [0, capacity]");
    VF_WITNESS("buffer alias end");
}
