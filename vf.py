#!/usr/bin/env python3
"""vf.py — driver for solver-based checking of /repo (janet) with CBMC.

  vf.py check <PID> [--tier quick|thorough] [--only SUBSTR] [--jobs N] [--keep]
  vf.py replay <dir>
  vf.py list

Every run regenerates every goto binary from /repo's current working tree
(cache key = content hash of /repo/src + flags), runs each harness case through
CBMC, classifies the verdicts, replays solver models natively against the real
sources, applies /verif/known_findings.txt and writes /verif/evidence/<PID>.json.

Exit status: 0 = no violation among the obligations that reached a verdict (KNOWN-FINDING lines allowed); obligations
                 that ran out of their time/memory budget are printed as UNDECIDED / NO-VERDICT, listed in the evidence
                 and never counted as discharged,
             1 = VIOLATION (printed, with replay path),
             2 = harness broken (vacuous witness, bound too small, counterexample that does not replay, build error)
                 or nothing at all reached a verdict.
"""
import sys, os, re, json, hashlib, subprocess, time, shutil, fnmatch, argparse, glob
from concurrent.futures import ThreadPoolExecutor, as_completed

VERIF = os.path.dirname(os.path.abspath(__file__))
REPO = os.environ.get("VF_REPO", "/repo")
BUILD = os.path.join(VERIF, ".build")
HDIR = os.path.join(VERIF, "h")
INC = os.path.join(HDIR, "include")
BASE_FLAGS = ["-I%s/src/include" % REPO, "-I%s/src/conf" % REPO, "-std=c99", "-DJANET_VERIF"]
HARNESS_FLAGS = ["-iquote", "%s/src/core" % REPO, "-I" + INC, "-I" + HDIR]
CBMC_BASE = ["--no-malloc-may-fail", "--object-bits", "12", "--unwinding-assertions", "--drop-unused-functions",
             "--signed-overflow-check", "--div-by-zero-check", "--undefined-shift-check"]
# E7: out-of-object pointer *formation/relation* (no dereference) is filed separately
UB_FORMATION = re.compile(r"^(pointer relation: |pointer arithmetic: )")
MEMCAP_KB_DEFAULT = 12 * 1024 * 1024


def _pdeathsig():
    # the child lives in its own session (so a timeout can kill its whole group); make sure it cannot outlive the driver
    try:
        import ctypes
        ctypes.CDLL("libc.so.6", use_errno=True).prctl(1, 9)     # PR_SET_PDEATHSIG, SIGKILL
    except Exception:
        pass


def sh(cmd, timeout=None, memcap_kb=None, cwd=None, env=None):
    def pre():
        if memcap_kb:
            import resource
            resource.setrlimit(resource.RLIMIT_AS, (memcap_kb * 1024, memcap_kb * 1024))
        os.setsid()
        _pdeathsig()
    t0 = time.time()
    p = subprocess.Popen(cmd, stdout=subprocess.PIPE, stderr=subprocess.PIPE, cwd=cwd, env=env,
                         preexec_fn=pre)
    try:
        out, err = p.communicate(timeout=timeout)
        to = False
    except subprocess.TimeoutExpired:
        try:
            os.killpg(p.pid, 9)
        except Exception:
            p.kill()
        out, err = p.communicate()
        to = True
    return p.returncode, out.decode("utf-8", "replace"), err.decode("utf-8", "replace"), time.time() - t0, to


_tree_hash = None


def tree_hash():
    """content hash of everything a goto binary or the native janet build can depend on"""
    global _tree_hash
    if _tree_hash is None:
        h = hashlib.sha256()
        files = []
        for root, _, fs in os.walk(os.path.join(REPO, "src")):
            for f in fs:
                files.append(os.path.join(root, f))
        for f in sorted(files):
            h.update(f.encode())
            with open(f, "rb") as fh:
                h.update(fh.read())
        for f in sorted(glob.glob(os.path.join(INC, "*"))):
            with open(f, "rb") as fh:
                h.update(fh.read())
        _tree_hash = h.hexdigest()[:16]
    return _tree_hash


def keyhash(*parts):
    h = hashlib.sha256()
    for p in parts:
        h.update(repr(p).encode())
    return h.hexdigest()[:16]


class BuildError(Exception):
    pass


import threading
_locks = {}
_locks_guard = threading.Lock()


def lock_for(path):
    with _locks_guard:
        return _locks.setdefault(path, threading.Lock())


def gc_build_dirs():
    """drop caches of older trees (disk is limited); caches younger than 6 hours are kept (concurrent runs on other trees)"""
    for sub in ("gb", "work", "gen"):
        root = os.path.join(BUILD, sub)
        if not os.path.isdir(root):
            continue
        for d in os.listdir(root):
            p = os.path.join(root, d)
            if d != tree_hash() and time.time() - os.path.getmtime(p) > 6 * 3600:
                shutil.rmtree(p, ignore_errors=True)


def unit_gb(unit, flags):
    """goto-cc one real translation unit of /repo; returns path of the goto binary"""
    d = os.path.join(BUILD, "gb", tree_hash(), keyhash(flags))
    os.makedirs(d, exist_ok=True)
    out = os.path.join(d, unit.replace("/", "_") + ".gb")
    with lock_for(out):
      if not os.path.exists(out):
        src = unit if os.path.isabs(unit) else os.path.join(REPO, "src/core", unit)
        tmp = out + ".tmp%d" % os.getpid()
        rc, o, e, _, _ = sh(["goto-cc", "-c", src, "-o", tmp] + BASE_FLAGS + flags)
        if rc != 0:
            raise BuildError("goto-cc %s failed:\n%s" % (unit, e[-3000:]))
        os.replace(tmp, out)
    return out


def parse_header(path):
    txt = open(path).read()
    m = re.search(r"/\*\s*VF\s*\n(.*?)\n\s*VF\s*\*/", txt, re.S)
    if not m:
        raise BuildError("no VF header in " + path)
    try:
        return json.loads(m.group(1))
    except Exception as ex:
        raise BuildError("bad VF header in %s: %s" % (path, ex))


def harness_cases(path, hdr, tier):
    cases = hdr.get("cases")
    if "cases_py" in hdr:
        env = {"tier": tier}
        gen = os.path.join(os.path.dirname(path), hdr["cases_py"])
        src = open(gen).read()
        exec(compile(src, gen, "exec"), env)
        cases = env["cases"](tier, hdr, path)
    if not cases:
        cases = [{"name": "main"}]
    out = []
    for c in cases:
        t = c.get("tier", "quick")
        if tier == "quick" and t != "quick":
            continue
        out.append(c)
    return out


class Case:
    def __init__(self, pid, hpath, hdr, case):
        self.pid = pid
        self.hpath = hpath
        self.hname = os.path.splitext(os.path.basename(hpath))[0]
        self.hdr = hdr
        self.case = case
        self.name = case.get("name", "main")
        self.id = "%s:%s" % (self.hname, self.name)
        self.D = list(hdr.get("defines", [])) + list(case.get("D", []))
        self.status = None     # ok | violation | known | undecided | error
        self.detail = ""
        self.props = 0
        self.failed = []
        self.ub_formation = []
        self.solver_s = 0.0
        self.wall_s = 0.0
        self.witness_ok = False
        self.replay = None
        self.known = []

    def get(self, k, default=None):
        if k in self.case:
            return self.case[k]
        return self.hdr.get(k, default)


def build_case(c, workdir):
    hdr = c.hdr
    os.makedirs(workdir, exist_ok=True)
    defs = c.D
    # 1. real units
    gbs = []
    udefs = c.get("unit_defines", {})
    for u in c.get("units", []):
        gbs.append(unit_gb(u, list(hdr.get("defines", [])) + list(udefs.get(u, []))))
    extra = []
    for x in c.get("extra_sources", []):
        xp = os.path.join(os.path.dirname(c.hpath), x)
        o = os.path.join(workdir, os.path.basename(x) + ".gb")
        rc, _, e, _, _ = sh(["goto-cc", "-c", xp, "-o", o] + BASE_FLAGS + HARNESS_FLAGS + defs)
        if rc != 0:
            raise BuildError("goto-cc %s failed:\n%s" % (x, e[-3000:]))
        extra.append(o)
    units_gb = None
    rm = c.get("remove_bodies", [])
    if gbs:
        key = keyhash(sorted(gbs), sorted(rm))
        d = os.path.join(BUILD, "gb", tree_hash(), "linked")
        os.makedirs(d, exist_ok=True)
        units_gb = os.path.join(d, key + ".gb")
        with lock_for(units_gb):
          if not os.path.exists(units_gb):
            tmp = units_gb + ".tmp%d_%s" % (os.getpid(), keyhash(workdir))
            rc, _, e, _, _ = sh(["goto-cc"] + gbs + ["-o", tmp])
            if rc != 0:
                raise BuildError("link units failed:\n" + e[-3000:])
            if rm:
                args = []
                for f in rm:
                    args += ["--remove-function-body", f]
                rc, o, e, _, _ = sh(["goto-instrument"] + args + [tmp, tmp + ".rm"])
                if rc != 0:
                    raise BuildError("remove-function-body failed:\n" + (o + e)[-3000:])
                os.replace(tmp + ".rm", tmp)
            os.replace(tmp, units_gb)
    # 2. harness TU
    hgb = os.path.join(workdir, "harness.gb")
    rc, _, e, _, _ = sh(["goto-cc", "-c", c.hpath, "-o", hgb] + BASE_FLAGS + HARNESS_FLAGS + defs)
    if rc != 0:
        raise BuildError("goto-cc harness %s failed:\n%s" % (c.id, e[-4000:]))
    linked = os.path.join(workdir, "linked.gb")
    rc, _, e, _, _ = sh(["goto-cc", hgb] + extra + ([units_gb] if units_gb else []) + ["-o", linked])
    if rc != 0:
        raise BuildError("link %s failed:\n%s" % (c.id, e[-3000:]))
    rmh = c.get("remove_bodies_after_link", [])
    if rmh:
        args = []
        for f in rmh:
            args += ["--remove-function-body", f]
        rc, o, e, _, _ = sh(["goto-instrument"] + args + [linked, linked + ".rm"])
        if rc != 0:
            raise BuildError("remove-function-body(after) failed:\n" + (o + e)[-3000:])
        os.replace(linked + ".rm", linked)
    return linked


def cbmc_cmd(c, linked, extra=()):
    rmf = set(c.get("cbmc_remove", []))
    cmd = ["cbmc", linked, "--function", c.get("entry", "harness"), "--json-ui"] + [f for f in CBMC_BASE if f not in rmf]
    uw = c.get("unwind")
    if uw is not None:
        cmd += ["--unwind", str(uw)]
    us = list(c.get("unwindset") or [])
    ua = c.get("unwind_functions")     # {"function": bound}: every loop of that function gets the bound (loop ids are looked up)
    if ua:
        key = linked + ".loops"
        if not os.path.exists(key):
            rc, out, err, _, _ = sh(["cbmc", linked, "--show-loops"], timeout=120)
            open(key, "w").write(out)
        for m in re.finditer(r"^Loop (\S+?)\.(\d+):", open(key).read(), re.M):
            if m.group(1) in ua:
                us.append("%s.%s:%d" % (m.group(1), m.group(2), ua[m.group(1)]))
    if us:
        cmd += ["--unwindset", ",".join(us)]
    cmd += [str(x) for x in c.get("cbmc", [])]
    be = c.get("backend", "minisat")
    if be == "cadical":
        cmd += ["--sat-solver", "cadical"]
    elif be == "kissat":
        cmd += ["--external-sat-solver", "kissat"]
    elif be == "z3":
        cmd += ["--z3"]
    elif be == "cvc5":
        cmd += ["--cvc5"]
    cmd += list(extra)
    return cmd


def parse_cbmc_json(out):
    """returns (results list or None, solver seconds, messages, traces)"""
    try:
        js = json.loads(out)
    except Exception:
        # truncated output (killed): try to salvage nothing
        return None, 0.0, [], "unparseable"
    res = None
    solver = 0.0
    msgs = []
    cprover_status = None
    for item in js:
        if "result" in item:
            res = item["result"]
        if "messageText" in item:
            t = item["messageText"]
            msgs.append(t)
            m = re.search(r"Runtime Solver: ([0-9.]+)s", t)
            if m:
                solver += float(m.group(1))
            m = re.search(r"Runtime decision procedure: ([0-9.]+)s", t)
            if m:
                solver = max(solver, float(m.group(1)))
        if "cProverStatus" in item:
            cprover_status = item["cProverStatus"]
    return res, solver, msgs, cprover_status


def classify(c, res):
    """split CBMC property results into witness / ub-formation / unwinding / real failures"""
    c.props = len(res)
    wit_seen, wit_ok = 0, 0
    fails, ub, unwind, nobody = [], [], [], []
    for r in res:
        d = r.get("description", "")
        st = r.get("status")
        if d.startswith("VF_WITNESS"):
            wit_seen += 1
            if st == "FAILURE":
                wit_ok += 1
            continue
        if st == "SUCCESS":
            continue
        if st != "FAILURE":
            # UNKNOWN: CBMC could not decide it because it is only reachable past a failed *fatal* check
            c.unknown = getattr(c, "unknown", 0) + 1
            c.unknown_desc = getattr(c, "unknown_desc", []) + ["%s @ %s" % (d[:60], _loc(r))]
            continue
        if UB_FORMATION.match(d) and not c.get("strict_pointer_formation", False):
            ub.append({"property": r.get("property"), "description": d,
                       "loc": _loc(r)})
            continue
        if "unwinding assertion" in d or "recursion unwinding assertion" in d:
            unwind.append(r)
            continue
        fails.append(r)
    return wit_seen, wit_ok, fails, ub, unwind


def _loc(r):
    sl = r.get("sourceLocation") or {}
    if not sl and r.get("trace"):
        for st in reversed(r["trace"]):
            if st.get("sourceLocation"):
                sl = st["sourceLocation"]
                break
    return "%s:%s %s" % (os.path.basename(sl.get("file", "?")), sl.get("line", "?"), sl.get("function", ""))


class MemBudget:
    """admission control: the sum of the declared mem_gb of running cases stays below the pool"""
    def __init__(self, total):
        self.total, self.used, self.cv = total, 0, threading.Condition()

    def acquire(self, n):
        n = min(n, self.total)
        with self.cv:
            while self.used + n > self.total:
                self.cv.wait()
            self.used += n
        return n

    def release(self, n):
        with self.cv:
            self.used -= n
            self.cv.notify_all()


MEM = MemBudget(int(os.environ.get("VF_MEM_GB", "44")))


DEADLINE = [None]     # wall-clock budget of the whole run (thorough tier): cases not started by then are reported as undecided


def run_case(c, tier, keep=False):
    w = MEM.acquire(c.get("mem_gb", 3))
    try:
        if DEADLINE[0] is not None and time.time() > DEADLINE[0]:
            c.status, c.detail, c.wall_s = "undecided", "not started: the run's wall-clock budget (VF_WALL_BUDGET) was used up", 0.0
            return c
        return run_case_(c, tier, keep)
    finally:
        MEM.release(w)


def run_case_(c, tier, keep=False):
    t0 = time.time()
    wd = os.path.join(BUILD, "work", tree_hash(), c.pid, c.hname, re.sub(r"[^A-Za-z0-9_.-]", "_", c.name))
    shutil.rmtree(wd, ignore_errors=True)
    try:
        linked = build_case(c, wd)
    except BuildError as ex:
        c.status, c.detail = "error", str(ex)
        c.wall_s = time.time() - t0
        return c
    timeout = c.get("timeout", 300)
    if tier == "thorough":
        timeout = c.get("timeout_thorough", timeout * 2)
    if os.environ.get("VF_TIMEOUT"):
        timeout = int(os.environ["VF_TIMEOUT"])       # explicit cap wins in both tiers
    memcap = int(max(c.get("mem_gb", 3) * 2, 6) * 1024 * 1024)   # hard cap = twice the declared budget (>= 6 GB)
    sel = []
    ex_re, only_re = list(c.get("exclude_properties_re") or []), c.get("only_properties_re")
    c.excluded_formation = []
    if True:
        # E7/E8: list the properties; drop (a) out-of-object pointer *relation* checks (formal UB without a dereference:
        # CBMC treats their failure as fatal and then reports everything downstream as UNKNOWN), (b) what the case slices away.
        rc, out, err, _, _ = sh(cbmc_cmd(c, linked, ["--show-properties"]), timeout=300)
        names = []
        try:
            for item in json.loads(out):
                for pr in item.get("properties", []) if isinstance(item, dict) else []:
                    names.append((pr["name"], pr.get("description", ""), pr.get("sourceLocation", {})))
        except Exception:
            pass
        if not names:
            c.status, c.detail = "error", "could not list properties: " + (out[-800:] + err[-800:])
            c.wall_s = time.time() - t0
            return c
        strict = c.get("strict_pointer_formation", False)
        for n, d, sl in names:
            keep = True
            if only_re and not any(re.search(x, n + " " + d) for x in only_re):
                keep = False
            if ex_re and any(re.search(x, n + " " + d) for x in ex_re):
                keep = False
            if not strict and UB_FORMATION.match(d):
                keep = False
                c.excluded_formation.append("%s @ %s:%s" % (d[:70], os.path.basename(sl.get("file", "?")), sl.get("line", "?")))
            if d.startswith("VF_WITNESS"):
                keep = True
            if keep:
                sel += ["--property", n]
        c.sliced = "%d of %d properties selected" % (len(sel) // 2, len(names))
    cmd = cbmc_cmd(c, linked, sel)
    rc, out, err, wall, to = sh(cmd, timeout=timeout, memcap_kb=memcap)
    c.cmd = " ".join(cmd[:40])
    if to:
        c.status, c.detail = "undecided", "timeout %ds" % timeout
        c.wall_s = time.time() - t0
        if not keep:
            shutil.rmtree(wd, ignore_errors=True)
        return c
    res, solver, msgs, cstat = parse_cbmc_json(out)
    c.solver_s = solver
    if res is None:
        tail = (out[-1500:] + err[-1500:])
        oom = "bad_alloc" in tail or "Out of memory" in tail or rc in (-6, -9, 134, 137)
        c.status = "undecided" if oom else "error"
        c.detail = ("out of memory (cap %d GB)" % (memcap // (1024 * 1024))) if oom else ("cbmc gave no result rc=%s: %s" % (rc, "\n".join(msgs[-6:]) + tail))
        c.wall_s = time.time() - t0
        if not keep:
            shutil.rmtree(wd, ignore_errors=True)
        return c
    if cstat is None or any(("Out of memory" in m or "bad_alloc" in m or "Try reducing the problem size" in m) for m in msgs):
        c.status, c.detail = "undecided", "cbmc ended without a verdict after %d property results (memory cap %d GB or crash)" % (len(res), memcap // (1024 * 1024))
        c.wall_s = time.time() - t0
        return c
    wit_seen, wit_ok, fails, ub, unwind = classify(c, res)
    c.ub_formation = ub
    c.witness_ok = wit_seen > 0 and wit_ok == wit_seen
    expect_nobody = set(c.get("allow_no_body", []))
    real = []
    for r in fails:
        d = r.get("description", "")
        m = re.match(r"no body for callee (\S+)", d)
        if m and m.group(1) in expect_nobody:
            continue
        deny = c.get("no_body_deny_re")
        if m and deny and not re.search(deny, m.group(1)):
            c.inert = sorted(set(getattr(c, "inert", []) + [m.group(1)]))
            continue
        real.append(r)
    if getattr(c, "unknown", 0) and not real and not unwind:
        c.status = "error"
        c.detail = "%d properties UNKNOWN (undecided by CBMC, e.g. only reachable past a failed fatal check): %s" % (c.unknown, "; ".join(getattr(c, "unknown_desc", [])[:4]))
    elif unwind and not c.get("unwind_is_property", False):
        c.status = "error"
        c.detail = "unwinding bound too small: " + "; ".join(sorted(set(r.get("property", "?") for r in unwind))[:6])
    elif not c.witness_ok and not real:
        c.status = "error"
        c.detail = "VACUOUS: witness reachable=%d/%d" % (wit_ok, wit_seen)
    elif real or unwind:
        allf = real + (unwind if c.get("unwind_is_property", False) else [])
        c.failed = [{"property": r.get("property"), "description": r.get("description"), "loc": _loc(r)} for r in allf]
        c.status = "violation"
        handle_violation(c, linked, wd, tier, timeout, memcap)
    else:
        c.status = "ok"
    c.wall_s = time.time() - t0
    if not keep and c.status in ("ok", "undecided"):
        shutil.rmtree(wd, ignore_errors=True)
    return c


# ---------------------------------------------------------------- known findings
def load_known():
    ks = []
    p = os.path.join(VERIF, "known_findings.txt")
    if not os.path.exists(p):
        return ks
    for line in open(p):
        line = line.strip()
        if not line.startswith("known:"):
            continue
        kv = dict(re.findall(r"(\w+)=(\S+)", line.split("::")[0]))
        kv["what"] = line.split("::", 1)[1].strip() if "::" in line else line
        ks.append(kv)
    return ks


def match_known(c):
    out = []
    for k in load_known():
        if k.get("property") != c.pid:
            continue
        if not fnmatch.fnmatch(c.hname, k.get("harness", "*")):
            continue
        if not fnmatch.fnmatch(c.name, k.get("case", "*")):
            continue
        out.append(k)
    return out


def handle_violation(c, linked, wd, tier, timeout, memcap):
    """known-finding exclusion re-solve, then trace + native replay"""
    ks = match_known(c)
    if ks:
        # re-solve with the listed coordinates assumed away: must be UNSAT, else a new violation
        c2 = Case(c.pid, c.hpath, c.hdr, dict(c.case))
        c2.D = c.D + ["-DVF_EXCLUDE_KNOWN"]
        wd2 = wd + ".excl"
        shutil.rmtree(wd2, ignore_errors=True)
        try:
            linked2 = build_case(c2, wd2)
            rc, out, err, wall, to = sh(cbmc_cmd(c2, linked2), timeout=timeout, memcap_kb=memcap)
            res, solver, msgs, _ = (None, 0, [], None) if to else parse_cbmc_json(out)
            if res is not None:
                c.solver_s += solver
                ws, wo, fails, ub, unwind = classify(c2, res)
                if ws > 0 and wo > 0 and not fails and not (unwind and c.get("unwind_is_property", False)):
                    c.status = "known"
                    c.known = [k["what"] for k in ks]
                    shutil.rmtree(wd2, ignore_errors=True)
                    return
                if fails:
                    c.failed = [{"property": r.get("property"), "description": r.get("description"), "loc": _loc(r)} for r in fails]
                    linked, wd = linked2, wd2
                    c.D = c2.D
                    c.detail = "violation remains with known coordinates excluded"
                else:
                    c.status = "error"
                    c.detail = "known-exclusion re-solve inconclusive"
                    return
            else:
                c.status = "undecided"
                c.detail = "known-exclusion re-solve: no result"
                return
        except BuildError as ex:
            c.status, c.detail = "error", str(ex)
            return
    make_replay(c, linked, wd, timeout, memcap)


def make_replay(c, linked, wd, timeout, memcap):
    rdir = os.path.join(os.environ.get("VF_REPLAY_DIR", os.path.join(VERIF, "replays")), c.pid, "%s.%s" % (c.hname, re.sub(r"[^A-Za-z0-9_.-]", "_", c.name)))
    shutil.rmtree(rdir, ignore_errors=True)
    os.makedirs(rdir, exist_ok=True)
    first = c.failed[0]
    extra = ["--trace"]
    if first.get("property"):
        extra += ["--property", first["property"]]
    rc, out, err, wall, to = sh(cbmc_cmd(c, linked, extra), timeout=timeout, memcap_kb=memcap)
    vals, steps = [], []
    try:
        js = json.loads(out)
        for item in js:
            for r in item.get("result", []) if isinstance(item, dict) else []:
                if vals or steps:
                    break      # one trace only
                if first.get("property") and r.get("property") != first["property"]:
                    continue
                for st in r.get("trace", []) or []:
                    if st.get("stepType") == "assignment":
                        lhs = st.get("lhs", "")
                        v = st.get("value", {})
                        if lhs == "vf_input_log" and (st.get("sourceLocation") or {}).get("function") != "vf_next":
                            continue   # static initialisation, not an input
                        if lhs == "vf_input_log":
                            b = v.get("binary")
                            vals.append(int(b, 2) if b else int(v.get("data", "0")))
                        elif not st.get("hidden") and v.get("data") is not None and len(steps) < 4000:
                            sl = st.get("sourceLocation", {})
                            steps.append("%s:%s %s = %s" % (os.path.basename(sl.get("file", "")), sl.get("line", ""), lhs, v.get("data")))
    except Exception as ex:
        steps.append("trace unparseable: %s" % ex)
    open(os.path.join(rdir, "trace.txt"), "w").write("\n".join(steps) + "\n")
    with open(os.path.join(rdir, "values.c"), "w") as f:
        f.write("/* solver-chosen inputs, in consumption order */\n")
        f.write("const unsigned long long vf_replay_vals[] = {%s 0};\n" % "".join("0x%xULL, " % v for v in vals))
        f.write("const unsigned vf_replay_n = %d;\n" % len(vals))
    meta = {"property": c.pid, "harness": os.path.relpath(c.hpath, VERIF), "case": c.name, "defines": c.D,
            "failed": c.failed, "units": c.get("units", []), "native_units": c.get("native_units", c.get("units", [])),
            "unit_defines": c.get("unit_defines", {}), "hdr_defines": c.hdr.get("defines", []),
            "extra_sources": c.get("extra_sources", []), "native_flags": c.get("native_flags", []),
            "native": c.get("native", True), "inputs": len(vals)}
    json.dump(meta, open(os.path.join(rdir, "meta.json"), "w"), indent=1)
    c.replay = rdir
    if c.get("native", True):
        ok, log = native_replay(rdir)
        c.replay_confirmed = ok
        c.detail += (" | native replay: " + ("REPRODUCED" if ok else "not reproduced"))
        # an assertion violation of the harness that does not reproduce natively is an encoding error
        only_asserts = all(not re.match(r"(dereference failure|array|pointer|memcpy|memmove|free|double free|deallocated|.*bounds)", (f["description"] or "")) for f in c.failed)
        if not ok and only_asserts and not c.get("replay_optional", False):
            c.status = "error"
            c.detail += " (assertion-only counterexample did not reproduce: encoding error, no VIOLATION reported) failed: " + "; ".join(sorted(set((f["description"] or "")[:70] for f in c.failed))[:8])
    else:
        c.replay_confirmed = None
        c.detail += " | replay: trace only (harness marked native=false: %s)" % c.get("native_why", "stubs not natively linkable")


def native_lib(defines, unit_defines=None):
    """all of /repo/src/core compiled natively (ASan+UBSan, -O0) with the harness' defines, as a static archive"""
    unit_defines = unit_defines or {}
    key = keyhash(sorted(defines), sorted((k, tuple(v)) for k, v in unit_defines.items()))
    d = os.path.join(BUILD, "native", tree_hash(), key)
    lib = os.path.join(d, "libjanet_vf.a")
    with lock_for(lib):
        return _native_lib(defines, d, lib, unit_defines)


def _native_lib(defines, d, lib, unit_defines):
    if os.path.exists(lib):
        return lib, None
    os.makedirs(d, exist_ok=True)
    base = ["cc", "-O0", "-g", "-w", "-fsanitize=address,undefined", "-fno-sanitize-recover=undefined",
            "-fno-omit-frame-pointer"] + BASE_FLAGS + list(defines)
    units = sorted(glob.glob(os.path.join(REPO, "src/core/*.c")))
    def cc(u):
        o = os.path.join(d, os.path.basename(u)[:-2] + ".o")
        rc, _, e, _, _ = sh(base + list(unit_defines.get(os.path.basename(u), [])) + ["-c", u, "-o", o])
        return (o, None) if rc == 0 else (None, "%s: %s" % (u, e[-1500:]))
    with ThreadPoolExecutor(max_workers=8) as ex:
        res = list(ex.map(cc, units))
    bad = [e for o, e in res if e]
    if bad:
        return None, "native compile failed: " + bad[0]
    sup = os.path.join(d, "vf_support.c")
    open(sup, "w").write("#include <stddef.h>\n__attribute__((weak)) const unsigned char *janet_core_image = 0;\n__attribute__((weak)) size_t janet_core_image_size = 0;\n")
    rc, _, e, _, _ = sh(base + ["-c", sup, "-o", sup[:-2] + ".o"])
    tmp = lib + ".tmp%d" % os.getpid()
    rc, _, e, _, _ = sh(["ar", "rcs", tmp] + [o for o, _ in res] + [sup[:-2] + ".o"])
    if rc != 0:
        return None, "ar failed: " + e
    os.replace(tmp, lib)
    return lib, None


def native_replay(rdir):
    meta = json.load(open(os.path.join(rdir, "meta.json")))
    hp = os.path.join(VERIF, meta["harness"])
    exe = os.path.join(rdir, "replay.exe")
    srcs = [hp, os.path.join(rdir, "values.c")]
    for x in meta.get("extra_sources", []):
        srcs.append(os.path.join(os.path.dirname(hp), x))
    log = []
    lib, err = native_lib(meta.get("hdr_defines", []), meta.get("unit_defines", {}))
    if err:
        log.append(err)
        open(os.path.join(rdir, "native.log"), "w").write("\n".join(log))
        return False, log
    base = ["cc", "-O0", "-g", "-w", "-fsanitize=address,undefined", "-fno-sanitize-recover=undefined", "-fno-omit-frame-pointer",
            "-DVF_REPLAY"] + BASE_FLAGS + meta.get("native_flags", [])
    cmd = base + HARNESS_FLAGS + meta["defines"] + srcs + [lib, "-Wl,--allow-multiple-definition", "-lm", "-lpthread", "-ldl", "-o", exe]
    rc, o_, e, _, _ = sh(cmd)
    open(os.path.join(rdir, "build.sh"), "w").write("#!/bin/sh\n" + " ".join("'%s'" % x for x in cmd) + "\n")
    if rc != 0:
        log.append("native link failed: " + e[-3000:])
        open(os.path.join(rdir, "native.log"), "w").write("\n".join(log))
        return False, log
    env = dict(os.environ)
    env["ASAN_OPTIONS"] = "detect_leaks=0:abort_on_error=0"
    env["UBSAN_OPTIONS"] = "halt_on_error=1:print_stacktrace=1"
    rc, o_, e, _, to = sh([exe], timeout=60, env=env)
    log.append("exit=%s timeout=%s\n%s\n%s" % (rc, to, o_[-3000:], e[-5000:]))
    open(os.path.join(rdir, "native.log"), "w").write("\n".join(log))
    # reproduced: harness assertion (1), sanitizer report, or a signal
    ok = (rc == 1 and "ASSERTION FAILED" in e) or "AddressSanitizer" in e or "runtime error" in e or (rc is not None and rc < 0) or to
    return ok, log


# ---------------------------------------------------------------- native janet of the current tree (E9)
def native_janet():
    """bootstraps janet from /repo's working tree (janet_boot -> amalgamated janet.c) and builds tools/fdump against it.
    returns dict(dir=..., janet=..., fdump=...)"""
    d = os.path.join(BUILD, "janet", tree_hash())
    out = {"dir": d, "janet": os.path.join(d, "janet"), "fdump": os.path.join(d, "fdump"), "amalg": os.path.join(d, "janet.c")}
    with lock_for(d):
        if os.path.exists(out["fdump"]) and os.path.exists(out["janet"]):
            return out
        root = os.path.join(BUILD, "janet")
        if os.path.isdir(root):
            for x in os.listdir(root):
                if x != tree_hash():
                    shutil.rmtree(os.path.join(root, x), ignore_errors=True)
        os.makedirs(os.path.join(d, "boot"), exist_ok=True)
        srcs = sorted(glob.glob(os.path.join(REPO, "src/core/*.c"))) + sorted(glob.glob(os.path.join(REPO, "src/boot/*.c")))
        base = ["cc", "-O0", "-w", "-std=c99", "-I%s/src/include" % REPO, "-I%s/src/conf" % REPO, "-DJANET_BOOTSTRAP", "-DJANET_BUILD=\"vf\"", "-fPIC"]
        def cc(u):
            o = os.path.join(d, "boot", os.path.basename(u)[:-2] + ".o")
            rc, _, e, _, _ = sh(base + ["-c", u, "-o", o])
            if rc != 0:
                raise BuildError("bootstrap compile failed: %s: %s" % (u, e[-1500:]))
            return o
        with ThreadPoolExecutor(max_workers=16) as ex:
            objs = list(ex.map(cc, srcs))
        boot = os.path.join(d, "janet_boot")
        rc, _, e, _, _ = sh(["cc", "-o", boot] + objs + ["-lm", "-lpthread", "-ldl", "-lrt"])
        if rc != 0:
            raise BuildError("janet_boot link failed: " + e[-1500:])
        rc, o, e, _, _ = sh([boot, ".", "JANET_PATH", "/usr/local/lib/janet"], cwd=REPO, timeout=300)
        if rc != 0 or len(o) < 100000:
            raise BuildError("janet_boot failed: " + e[-1500:])
        open(out["amalg"], "w").write(o)
        shutil.copy(os.path.join(REPO, "src/include/janet.h"), os.path.join(d, "janet.h"))
        shutil.copy(os.path.join(REPO, "src/conf/janetconf.h"), os.path.join(d, "janetconf.h"))
        lib = os.path.join(d, "janet.o")
        rc, _, e, _, _ = sh(["cc", "-O1", "-w", "-std=c99", "-I" + d, "-c", out["amalg"], "-o", lib], timeout=600)
        if rc != 0:
            raise BuildError("amalgamation compile failed: " + e[-1500:])
        rc, _, e, _, _ = sh(["cc", "-O1", "-w", "-std=c99", "-I" + d, os.path.join(REPO, "src/mainclient/shell.c"), lib, "-o", out["janet"], "-lm", "-lpthread", "-ldl", "-lrt"])
        if rc != 0:
            raise BuildError("janet link failed: " + e[-1500:])
        for tool in ("pegdump", "fdump"):     # fdump last: its presence marks the build complete
            rc, _, e, _, _ = sh(["cc", "-O1", "-w", "-I" + d, os.path.join(VERIF, "tools/%s.c" % tool), lib, "-o", os.path.join(d, tool), "-lm", "-lpthread", "-ldl", "-lrt"])
            if rc != 0:
                raise BuildError("%s build failed: %s" % (tool, e[-1500:]))
    return out


def pegdump(janet_src, outpath):
    """compile PEG grammars with the current tree's peg/compile and write C initialisers"""
    nj = native_janet()
    os.makedirs(os.path.dirname(outpath), exist_ok=True)
    srcp = outpath + ".janet"
    open(srcp, "w").write(janet_src)
    rc, o, e, _, _ = sh([os.path.join(nj["dir"], "pegdump"), srcp], timeout=60)
    if rc != 0:
        raise BuildError("pegdump failed (rc=%s) on %s: %s" % (rc, srcp, e[-800:]))
    open(outpath, "w").write(o)
    return outpath


def fdump(janet_src, outpath):
    """compile janet source text with the current tree's compiler and write the C initialisers to outpath"""
    nj = native_janet()
    os.makedirs(os.path.dirname(outpath), exist_ok=True)
    srcp = outpath + ".janet"
    open(srcp, "w").write(janet_src)
    rc, o, e, _, _ = sh([nj["fdump"], srcp], timeout=60)
    if rc != 0:
        raise BuildError("fdump failed (rc=%s) on %s: %s" % (rc, srcp, e[-800:]))
    open(outpath, "w").write(o)
    return outpath


# ---------------------------------------------------------------- check
def check(pid, tier, only=None, jobs=None, keep=False):
    t0 = time.time()
    seed = int(os.environ.get("VERIF_SEED", "0") or 0)
    gc_build_dirs()
    hfiles = sorted(glob.glob(os.path.join(HDIR, pid, "*.c")))
    prep = os.path.join(HDIR, pid, "prepare.py")
    gen_info = {}
    if os.path.exists(prep):
        env = {"__file__": prep}
        exec(compile(open(prep).read(), prep, "exec"), env)
        gen_info = env["prepare"](tier, sys.modules[__name__]) or {}
        hfiles = sorted(set(hfiles + glob.glob(os.path.join(HDIR, pid, "*.c")) + gen_info.get("harnesses", [])))
    cases = []
    hdrs = {}
    errors = []
    for hp in hfiles:
        if os.path.basename(hp).startswith("_"):
            continue
        try:
            hdr = parse_header(hp)
        except BuildError as ex:
            errors.append(str(ex))
            continue
        hdrs[hp] = hdr
        if hdr.get("tier", "quick") == "thorough" and tier == "quick":
            continue
        for cs in harness_cases(hp, hdr, tier):
            c = Case(pid, hp, hdr, cs)
            if only and only not in c.id:
                continue
            cases.append(c)
    if not cases:
        print("no harness cases for %s" % pid)
        return 2
    jobs = jobs or int(os.environ.get("VF_JOBS", "0") or 0) or min(16, os.cpu_count() or 4)
    budget = int(os.environ.get("VF_WALL_BUDGET", "0") or 0) or (3 * 3600 if tier == "thorough" else 0)
    DEADLINE[0] = (t0 + budget) if budget else None
    # pre-build distinct unit binaries serially-parallel to avoid races
    cases.sort(key=lambda c: -c.get("cost", 1))
    done = []
    with ThreadPoolExecutor(max_workers=jobs) as ex:
        futs = {ex.submit(run_case, c, tier, keep): c for c in cases}
        for f in as_completed(futs):
            c = f.result()
            done.append(c)
            line = "[%s] %-9s %-50s props=%-4d solver=%.1fs wall=%.1fs %s" % (pid, c.status, c.id, c.props, c.solver_s, c.wall_s, c.detail[:300].replace("\n", " | "))
            print(line, flush=True)
    # ---------------- verdict
    viol = [c for c in done if c.status == "violation"]
    known = [c for c in done if c.status == "known"]
    errs = [c for c in done if c.status == "error"]
    und = [c for c in done if c.status == "undecided"]
    ok = [c for c in done if c.status == "ok"]
    for c in und:
        print("UNDECIDED property=%s %s (%s)" % (pid, c.id, c.detail))
    seen_k = set()
    for c in known:
        for k in c.known:
            if k not in seen_k:
                seen_k.add(k)
                print("KNOWN-FINDING: property=%s %s [first seen at %s; %d obligations]" % (pid, k, c.id, sum(1 for x in known if k in x.known)))
    for c in viol:
        print("VIOLATION property=%s replay=%s" % (pid, c.replay))
        for f in c.failed[:5]:
            print("   failed: %s @ %s  [%s]" % (f["description"], f["loc"], c.id))
    for c in errs:
        print("ERROR property=%s %s: %s" % (pid, c.id, c.detail[:2000]))
    for e in errors:
        print("ERROR property=%s %s" % (pid, e))
    # family rule: every harness family must have at least one discharged obligation
    fam = {}
    for c in done:
        fam.setdefault(c.hname, []).append(c)
    dead = [h for h, cs in fam.items() if not any(x.status in ("ok", "known", "violation") for x in cs)]
    # ---------------- evidence
    meta_keys = ["functions_encoded", "bounds", "stubs", "outside_claim", "assumptions", "asserted"]
    agg = {k: [] for k in meta_keys}
    for hp, hdr in hdrs.items():
        for k in meta_keys:
            v = hdr.get(k)
            if not v:
                continue
            if isinstance(v, str):
                v = [v]
            for x in v:
                tag = "%s: %s" % (os.path.splitext(os.path.basename(hp))[0], x) if k in ("bounds", "asserted") else x
                if tag not in agg[k]:
                    agg[k].append(tag)
    samples = []
    for c in sorted(done, key=lambda c: c.id)[:12]:
        samples.append({"obligation": c.id, "defines": c.D[-6:], "cbmc_properties": c.props, "status": c.status,
                        "solver_s": round(c.solver_s, 2), "wall_s": round(c.wall_s, 1),
                        "witness_reached": c.witness_ok})
    ev = {
        "property_id": pid, "tier": tier, "seed": seed, "level": "model_checking",
        "coverage": {
            "evaluations": len(done),
            "distinct_nontrivial": len([c for c in done if c.witness_ok]),
            "rule": "one evaluation = one CBMC query (harness x concrete case) over the real translation units, inputs symbolic; "
                    "non-trivial = its VF_WITNESS reachability assertion came back violated (assertion point reachable under the assumptions); "
                    "cases are distinct -D instances generated by the harness' case matrix",
            "samples": samples,
            "obligations": len(done),
            "discharged": len(ok),
            "known_findings": sorted(set(k for c in known for k in c.known)),
            "undecided": [{"obligation": c.id, "why": c.detail} for c in und],
            "families_without_verdict": sorted(dead),
            "errors": [{"obligation": c.id, "why": c.detail[:300]} for c in errs],
            "cbmc_properties_checked": sum(c.props for c in done),
            "exhaustive": False,
            "explanation": "bounded symbolic execution of the real C sources by CBMC 6.11; each obligation holds for every input within the bounds listed, nothing is claimed outside them",
            "functions_encoded": agg["functions_encoded"],
            "bounds": agg["bounds"],
            "asserted": agg["asserted"],
            "stubs": agg["stubs"],
            "outside_claim": agg["outside_claim"],
            "solver_s": round(sum(c.solver_s for c in done), 2),
            "backend": sorted(set(c.get("backend", "minisat") for c in done)),
            "ub_pointer_formation_not_checked": sorted(set(x for c in done for x in getattr(c, "excluded_formation", [])))[:60],
            "repo_tree_hash": tree_hash(),
            "generated": gen_info.get("info", {}),
        },
        "assumptions": agg["assumptions"] + ["CBMC 6.11.0 C semantics and library models; --no-malloc-may-fail (allocation failure outside every claim)",
                                             "JANET_NO_NANBOX representation unless a harness states otherwise (DESIGN E2)"],
        "wall_s": round(time.time() - t0, 1),
        "violations": len(viol),
    }
    evdir = os.environ.get("VF_EVIDENCE_DIR", os.path.join(VERIF, "evidence"))
    if only and "VF_EVIDENCE_DIR" not in os.environ:
        evdir = os.path.join(BUILD, "evidence_partial")     # a filtered run must not replace the evidence of the registered check
    os.makedirs(evdir, exist_ok=True)
    json.dump(ev, open(os.path.join(evdir, pid + ".json"), "w"), indent=1)
    print("[%s] tier=%s obligations=%d discharged=%d known=%d undecided=%d errors=%d violations=%d wall=%.0fs" % (
        pid, tier, len(done), len(ok), len(known), len(und), len(errs), len(viol), time.time() - t0))
    if viol:
        return 1
    if dead:
        # a family whose every case ran out of its time/memory budget: reported (here and in the evidence) and NOT counted as
        # held; it is not an alarm either - the interface knows "held on everything explored" (0) and "violated" (1) only
        print("NO-VERDICT property=%s harness families with nothing decided: %s" % (pid, ",".join(dead)))
    if errs or errors or (dead and not ok and not known):
        return 2
    return 0


def main():
    ap = argparse.ArgumentParser()
    sub = ap.add_subparsers(dest="cmd")
    c = sub.add_parser("check")
    c.add_argument("pid")
    c.add_argument("--tier", default=os.environ.get("VERIF_TIER", "quick"))
    c.add_argument("--only")
    c.add_argument("--jobs", type=int)
    c.add_argument("--keep", action="store_true")
    r = sub.add_parser("replay")
    r.add_argument("path")
    sub.add_parser("list")
    a = ap.parse_args()
    if a.cmd == "check":
        sys.exit(check(a.pid, a.tier, a.only, a.jobs, a.keep))
    elif a.cmd == "replay":
        ok, log = native_replay(a.path)
        print("\n".join(log))
        print("REPRODUCED" if ok else "NOT REPRODUCED")
        sys.exit(1 if ok else 0)
    elif a.cmd == "list":
        for d in sorted(os.listdir(HDIR)):
            if re.match(r"C\d+", d):
                print(d, [os.path.basename(x) for x in sorted(glob.glob(os.path.join(HDIR, d, "*.c")))])
    else:
        ap.print_help()


if __name__ == "__main__":
    main()
