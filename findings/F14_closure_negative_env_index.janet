(def f (asm ~{:arity 0 :slotcount 1
              :bytecode @[(clo 0 0) (ret 0)]
              :closures @[{:arity 0 :slotcount 1 :environments @[-400] :bytecode @[(retn)]}]}))
(print "calling...")
(def g (f))
(print "made closure; marshal it (walks envs)")
(pp (protect (marshal g make-image-dict)))
