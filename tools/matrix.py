#!/usr/bin/env python3
"""runs every seeded change against its property's quick check in a scratch worktree (VF_REPO), records detection in seeded/<id>/meta.json"""
import subprocess, sys, os, json, glob, re, time
V = "/verif"; WT = "/tmp/wt/matrix"
ids = sys.argv[1:] or sorted(os.path.basename(d) for d in glob.glob(V + "/seeded/*") if os.path.isdir(d))
subprocess.run("git -C /repo worktree remove --force %s 2>/dev/null; git -C /repo worktree add --detach %s HEAD" % (WT, WT), shell=True, capture_output=True)
env = dict(os.environ, VF_REPO=WT, VF_EVIDENCE_DIR="/tmp/wt/matrix_ev", VF_REPLAY_DIR="/tmp/wt/matrix_replays", VF_JOBS=os.environ.get("VF_JOBS", "8"))
for i in ids:
    d = os.path.join(V, "seeded", i); pid = i.split("_")[0]
    mp = os.path.join(d, "meta.json"); meta = json.load(open(mp)) if os.path.exists(mp) else {}
    subprocess.run("git checkout -q -- . && git apply -C1 %s/patch.diff" % d, shell=True, cwd=WT)
    t0 = time.time()
    p = subprocess.run(["python3", V + "/vf.py", "check", pid, "--tier", "quick"], env=env, capture_output=True, text=True)
    out = p.stdout
    viol = re.findall(r"^\s+failed: (.*?) @ (\S+) .*\[(.*?)\]", out, re.M)
    meta.update({"detected_by_quick_check": p.returncode == 1, "check_exit": p.returncode, "check_wall_s": round(time.time() - t0),
                 "detected_by": sorted(set(v[2] for v in viol))[:6], "first_failed_obligation": viol[0][0] if viol else None})
    json.dump(meta, open(mp, "w"), indent=1)
    print(i, "DETECTED" if p.returncode == 1 else "missed(rc=%d)" % p.returncode, round(time.time() - t0), (viol[0][2] if viol else ""), flush=True)
subprocess.run("git -C /repo worktree remove --force %s" % WT, shell=True)
