/* VF
{
 "defines": ["-DJANET_NO_NANBOX"],
 "units": ["struct.c", "util.c", "value.c", "wrap.c", "state.c", "string.c"],
 "unit_defines": {"struct.c": ["-Djanet_equals=vf_equals", "-Djanet_hash=vf_hash", "-Djanet_compare=vf_compare"], "util.c": ["-Djanet_equals=vf_equals", "-Djanet_hash=vf_hash"]},
 "backend": "cadical",
 "unwind": 30,
 "timeout": 600,
 "mem_gb": 6,
 "cases_py": "struct_order_cases.py",
 "functions_encoded": ["struct.c: janet_struct_begin, janet_struct_put_ext, janet_struct_put, janet_struct_find, janet_struct_rawget", "util.c: janet_tablen, janet_memempty", "value.c: janet_compare, janet_equals (numbers)"],
 "asserted": ["V3: a struct built from the same n key/value pairs in two different insertion orders has bit-identical slot arrays (hence equal =, hash and compare, which are functions of the slot array), and every key is found with its value",
              "duplicate keys: later value replaces, layout unaffected"],
 "bounds": ["n = 2, 3 (quick) and 4 (thorough) pairs, capacity 4 / 8 as chosen by janet_struct_begin; every pair of insertion orders (identity vs each permutation); keys = arbitrary distinct non-NaN numbers (tie-break through the real janet_compare); home slot of every key concrete per case (all combinations up to rotation class for n = 2; homes clustered within 3 adjacent slots incl. across the wrap for n = 3 quick; all for thorough), hash magnitude symbolic among {home, home+cap, home+2cap} so every relative hash order and hash equality is covered"],
 "stubs": ["janet_hash as called from struct.c = arbitrary equality-respecting function with values in [0, 2*cap) over the key domain", "janet_gcalloc = malloc", "janet_panic family = end of path"],
 "outside_claim": ["more than 4 pairs", "hash values that differ beyond their low bits and order (the function reads a hash only through hash & (cap-1), < and ==)", "struct_end's rebuild path on a short count"]
}
VF */
#include "vf_stubs.h"
#define VF_ABSTRACT_HASH
#define VF_TAGLIST(X) X(JANET_STRING)
#define VF_TAGLIST2(X) X(JANET_STRING)
#include "vf_tagsplit.h"
#include "state.h"
#include "gc.h"
/* typed storage for the structs under construction: an untyped malloc(size) block makes every slot access a
 * byte-level read at a symbolic offset (solver out of memory); same layout as the real allocation */
#ifndef VF_CAP
#error case macros missing
#endif
struct vf_pool_elem { JanetStructHead head; JanetKV kvs[VF_CAP]; };
void *janet_gcalloc(enum JanetMemoryType type, size_t size) {
    VF_ASSERT(size == sizeof(JanetStructHead) + VF_CAP * sizeof(JanetKV), "allocation size is the one of a struct of this capacity");
    struct vf_pool_elem *e = malloc(sizeof(struct vf_pool_elem));   /* typed allocation, one object per struct */
#ifndef VF_REPLAY
    __CPROVER_assume(e != 0);
#endif
    e->head.gc.flags = type;
    e->head.gc.data.next = NULL;
    return e;
}

#ifndef VF_NKEYS
#error case macros missing
#endif
static const int perm[VF_NKEYS] = VF_PERM;
static const int homes[VF_NKEYS] = VF_HOMES;   /* home slot of each key: concrete per case (E4) */
/* keys are distinct 1-byte strings: identity (pointer) is concrete so the abstract hash is a concrete table lookup,
 * while their ORDER (the tie-break of struct_put through the real janet_compare/janet_string_compare) is symbolic */
static struct { JanetStringHead head; uint8_t data[2]; } kstr[VF_NKEYS];
static double val[VF_NKEYS];
static int32_t khash[VF_NKEYS];

int32_t vf_hash(Janet x) {
    if (x.type != JANET_STRING) VF_UNREACHABLE("non-string key hashed");
    for (int j = 0; j < VF_NKEYS; j++) if (janet_unwrap_string(x) == kstr[j].data) return khash[j];
    VF_UNREACHABLE("a key outside the key domain was hashed");
    return 0;
}

static int pw3(int n) { int r = 1; for (int i = 0; i < n; i++) r *= 3; return r; }

void harness(void) {
    janet_vm.traversal = NULL; janet_vm.traversal_base = NULL; janet_vm.traversal_top = NULL;
    for (int i = 0; i < VF_NKEYS; i++) {
        kstr[i].head.length = 1;
        kstr[i].head.hash = 0;
        kstr[i].data[0] = vf_u8(); kstr[i].data[1] = 0;
        for (int j = 0; j < i; j++) VF_ASSUME(kstr[j].data[0] != kstr[i].data[0]);
        val[i] = vf_f64();
        VF_ASSUME(val[i] == val[i]);
    }
    /* every combination of hash magnitudes {home, home+cap, home+2cap}: all relative hash orders and equalities */
    for (int m0 = 0; m0 < VF_NMAG; m0++) {
        int m = m0 * VF_MSTRIDE + VF_MOFF;   /* the case fixes the magnitude of key 0 (chunking) */
        int mm = m;
        for (int i = 0; i < VF_NKEYS; i++) { khash[i] = homes[i] + VF_CAP * (mm % 3); mm /= 3; }
        JanetKV *a = janet_struct_begin(VF_NKEYS);
        JanetKV *b = janet_struct_begin(VF_NKEYS);
        for (int i = 0; i < VF_NKEYS; i++) janet_struct_put(a, janet_wrap_string(kstr[i].data), janet_wrap_number(val[i]));
        for (int i = 0; i < VF_NKEYS; i++) janet_struct_put(b, janet_wrap_string(kstr[perm[i]].data), janet_wrap_number(val[perm[i]]));
        VF_ASSERT(janet_struct_hash(a) == VF_NKEYS && janet_struct_hash(b) == VF_NKEYS, "all pairs were stored");
        for (int s = 0; s < VF_CAP; s++) {
            VF_ASSERT(a[s].key.type == b[s].key.type, "slot occupancy differs between insertion orders");
            if (a[s].key.type == JANET_STRING) {
                VF_ASSERT(janet_unwrap_string(a[s].key) == janet_unwrap_string(b[s].key), "slot key differs between insertion orders");
                VF_ASSERT(janet_unwrap_number(a[s].value) == janet_unwrap_number(b[s].value), "slot value differs between insertion orders");
            }
        }
        for (int q = 0; q < VF_NKEYS; q++) {
            Janet g = janet_struct_rawget(b, janet_wrap_string(kstr[q].data));
            VF_ASSERT(janet_checktype(g, JANET_NUMBER) && janet_unwrap_number(g) == val[q], "a stored key is not found with its value");
        }
    }
    VF_WITNESS("struct order end");
}
