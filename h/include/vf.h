/* vf.h — common prelude of every harness.
 *
 * Two compilation modes of the SAME harness source:
 *   - under goto-cc/CBMC (__CPROVER__ defined): inputs are nondeterministic,
 *     VF_ASSERT is a proof obligation, VF_WITNESS is an always-false assertion
 *     that MUST come back violated (reachability witness, anti-vacuity).
 *   - natively with -DVF_REPLAY: inputs are read back, in order, from the values
 *     the solver chose (extracted from the counterexample trace by vf.py), and
 *     VF_ASSERT aborts with exit status 1 — the replay against the real code.
 *
 * Every symbolic input must come from a vf_*() function so that it is logged
 * in the trace (assignment to vf_input_log) and can be replayed.
 */
#ifndef VF_H
#define VF_H
#include <stdint.h>
#include <stddef.h>
#include <string.h>

#ifdef VF_REPLAY
#include <stdio.h>
#include <stdlib.h>
extern const unsigned long long vf_replay_vals[];
extern const unsigned vf_replay_n;
static unsigned vf_replay_i = 0;
static unsigned long long vf_next(void) {
    if (vf_replay_i >= vf_replay_n) {
        /* the native run consumed more inputs than the model: path diverged */
        fprintf(stderr, "REPLAY: input log exhausted at %u (path diverged)\n", vf_replay_i);
        exit(4);
    }
    return vf_replay_vals[vf_replay_i++];
}
#define VF_ASSUME(c) do { if (!(c)) { fprintf(stderr, "REPLAY: assumption failed: %s (%s:%d)\n", #c, __FILE__, __LINE__); exit(3); } } while (0)
#define VF_ASSERT(c, msg) do { if (!(c)) { fprintf(stderr, "REPLAY: ASSERTION FAILED: %s (%s:%d)\n", msg, __FILE__, __LINE__); fflush(stderr); exit(1); } } while (0)
#define VF_WITNESS(name) do { } while (0)
#define VF_UNREACHABLE(msg) do { fprintf(stderr, "REPLAY: ASSERTION FAILED: reached: %s (%s:%d)\n", msg, __FILE__, __LINE__); exit(1); } while (0)
/* leaves the path silently (assume(0) analogue): the replay ends as "not a violation on this path" */
#define VF_CUT() exit(5)
#ifndef VF_ENTRY
#define VF_ENTRY harness
#endif
#ifndef VF_NO_MAIN
void VF_ENTRY(void);
int main(void) {
    VF_ENTRY();
    fprintf(stderr, "REPLAY: harness completed without violation\n");
    return 0;
}
#endif
#else
unsigned long long vf_input_log; /* tentative definition; every vf_*() input is logged here for replay */
unsigned long long nondet_ull(void);
static inline unsigned long long vf_next(void) {
    unsigned long long v = nondet_ull();
    vf_input_log = v;
    return v;
}
#define VF_ASSUME(c) __CPROVER_assume(c)
#define VF_ASSERT(c, msg) __CPROVER_assert((c), msg)
#define VF_WITNESS(name) __CPROVER_assert(0, "VF_WITNESS " name)
#define VF_UNREACHABLE(msg) do { __CPROVER_assert(0, msg); __CPROVER_assume(0); } while (0)
#define VF_CUT() __CPROVER_assume(0)
#endif

static inline uint8_t vf_u8(void) { return (uint8_t) vf_next(); }
static inline uint16_t vf_u16(void) { return (uint16_t) vf_next(); }
static inline uint32_t vf_u32(void) { return (uint32_t) vf_next(); }
static inline int32_t vf_i32(void) { return (int32_t)(uint32_t) vf_next(); }
static inline uint64_t vf_u64(void) { return (uint64_t) vf_next(); }
static inline int64_t vf_i64(void) { return (int64_t) vf_next(); }
static inline int vf_bool(void) { return (int)(vf_next() & 1); }
static inline double vf_f64(void) {
    union { double d; uint64_t u; } x;
    x.u = (uint64_t) vf_next();
    return x.d;
}
/* value in [lo, hi] */
static inline int32_t vf_range(int32_t lo, int32_t hi) {
    int32_t v = vf_i32();
    VF_ASSUME(v >= lo && v <= hi);
    return v;
}
static inline void vf_bytes(uint8_t *p, size_t n) {
    for (size_t i = 0; i < n; i++) p[i] = vf_u8();
}

#endif
