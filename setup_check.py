#!/usr/bin/env python3
"""setup: nothing to fetch or build ahead of time — every check regenerates its goto binaries from /repo.
Verifies the tools are present."""
import shutil, sys, subprocess
missing = [t for t in ("cbmc", "goto-cc", "goto-instrument", "cc", "python3") if not shutil.which(t)]
if missing:
    print("missing tools:", missing); sys.exit(1)
print(subprocess.run(["cbmc", "--version"], capture_output=True, text=True).stdout.strip())
print("setup ok")
