(def f (fiber/new (fn [] (yield 1)) :yi))
(resume f)
(def img (marshal f make-image-dict))
(put img 6 0) (put img 2 0)  # frame offset := 0 (no frames), no env table, status stays pending
(def g (unmarshal img load-image-dict))
(print "status: " (fiber/status g))
(print "resuming forged fiber...")
(pp (protect (resume g)))
