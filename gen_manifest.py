#!/usr/bin/env python3
"""regenerates MANIFEST.json from the table below + the harness directories that exist"""
import json, os, glob
V = os.path.dirname(os.path.abspath(__file__))
props = [json.loads(l) for l in open(os.path.join(V, "properties.jsonl"))]
CLAIMS = json.load(open(os.path.join(V, "claims.json")))
checks, na = [], []
for p in props:
    pid = p["id"]
    c = CLAIMS.get(pid, {})
    has = bool(glob.glob(os.path.join(V, "h", pid, "*.c")) or os.path.exists(os.path.join(V, "h", pid, "prepare.py")))
    if has and c.get("claim", True) and "text" in c:
        checks.append({
            "property_id": pid,
            "quick_cmd": "python3 vf.py check %s --tier quick" % pid,
            "thorough_cmd": "python3 vf.py check %s --tier thorough" % pid,
            "evidence_file": "evidence/%s.json" % pid,
            "replay_cmd_template": "python3 vf.py replay {path}",
            "engine": "cbmc",
            "level_claimed": {"category": "model_checking", "text": c["text"], "design_ref": "DESIGN.md section 3, " + pid},
            "level_note": c["note"],
            "technique": c.get("technique", "bounded symbolic execution of the real C translation units with CBMC 6.11 (SAT back ends minisat/cadical); counterexamples replayed natively"),
        })
    else:
        na.append({"property_id": pid, "reason": c.get("na_reason", "no solver-based check registered yet for this property (see DESIGN.md)")})
m = {
    "version": 1,
    "setup_cmd": "python3 setup_check.py",
    "hooks": {
        "guard": "JANET_VERIF",
        "enable": "goto-cc/cc -DJANET_VERIF (and -DJANET_VERIF_DISPATCH_HOOK=... for per-opcode harnesses); harness builds only, never the shipped build",
        "baseline_off_cmd": "meson test -C /repo/_build",
        "source_commits": ["6f761d0"],
        "add_only": True,
    },
    "engines": [{"name": "cbmc", "path": "vf.py", "serves_properties": [c["property_id"] for c in checks],
                 "kind_free_text": "CBMC 6.11.0 bounded model checking of /repo/src/core/*.c (goto-cc, regenerated from the working tree on every run), harnesses under h/<id>/"}],
    "checks": checks,
    "not_applicable": na,
    "notes": "exit 0 = all obligations discharged (UNDECIDED obligations are listed, never counted); exit 1 = VIOLATION line; exit 2 = no verdict (vacuous witness, bound too small, build error). Known findings: known_findings.txt.",
}
json.dump(m, open(os.path.join(V, "MANIFEST.json"), "w"), indent=1)
print("checks:", [c["property_id"] for c in checks], "na:", len(na))
