/* VF
{
 "defines": ["-DJANET_NO_NANBOX"],
 "units": ["wrap.c", "state.c", "fiber.c", "util.c"],
 "remove_bodies": ["janet_fiber_funcframe", "janet_fiber_funcframe_tail", "janet_fiber_cframe", "janet_fiber_push", "janet_fiber_pushn", "janet_fiber_push2", "janet_fiber_push3", "janet_fiber_setcapacity", "janet_fiber_popframe", "janet_fiber", "janet_fiber_reset"],
 "cbmc": ["--no-built-in-assertions"],
 "no_body_deny_re": "^(janet_mark|janet_chanat|janet_env_|janet_gcroot)",
 "backend": "cadical",
 "unwind": 18,
 "timeout": 300,
 "cases_py": "gc_marks_cases.py",
 "functions_encoded": ["ev.c: janet_chanat_mark, janet_chanat_mark_fq (channel gcmark hook)", "fiber.c: janet_env_maybe_detach, janet_env_detach, janet_env_valid", "gc.c: janet_mark (one level, children spilled to the root list by the depth guard), janet_mark_array/tuple/struct/table, janet_gcroot"],
 "asserted": ["G1a (channel): the channel's mark hook marks EVERY queued item for every ring position (head/tail incl. wrapped rings) and the fiber of every pending reader and writer — nothing reachable only through a channel can be freed",
              "closure environments: the collector detaches an on-stack environment only when its fiber is finished (dead, error, user0-4); a fiber suspended on any resumable status keeps sharing its stack slots with its closures",
              "G1a/G2 (containers): marking an array / tuple / struct / table with the depth budget at its last level sets the object's reachable bit and hands EVERY element, key, value and prototype to the deferred-root list (none is skipped, none recursed into)"],
 "bounds": ["channel item ring capacity 4, every (head, count) with count <= 3, 0..2 pending readers and writers; containers with 2 elements / pairs; fiber status: all 16 values"],
 "stubs": ["janet_mark (for the channel hook) = recording stub", "janet_panic family = end of path", "allocation = malloc"],
 "outside_claim": ["the whole-program statement (same output under every GC schedule)", "sweep, weak tables, function/fiber marking, other abstract types' hooks, half-built values in C locals"]
}
VF */
#include "features.h"
#include "vf_stubs.h"
#include "state.h"
#include "gc.h"
#include "fiber.h"

#if VF_CASE == 1 || VF_CASE == 2
/* recording stub for the channel hook */
static Janet marked[16]; static int nmarked;
void janet_mark(Janet x) { if (nmarked < 16) marked[nmarked] = x; nmarked++; }
static int was_marked_ptr(void *p) { for (int i = 0; i < 16; i++) if (i < nmarked && marked[i].as.pointer == p && marked[i].type != JANET_NUMBER) return 1; return 0; }
static int was_marked_num(double d) { for (int i = 0; i < 16; i++) if (i < nmarked && marked[i].type == JANET_NUMBER && janet_unwrap_number(marked[i]) == d) return 1; return 0; }
#endif

#if VF_CASE == 1
static Janet vf_tuple_store[4];
Janet *janet_tuple_begin(int32_t length) { (void) length; return vf_tuple_store; }
const Janet *janet_tuple_end(Janet *tuple) { return tuple; }
const uint8_t *janet_csymbol(const char *s) { (void) s; return (const uint8_t *) "k"; }
void janet_table_put(JanetTable *t, Janet k, Janet v) { (void) t; (void) k; (void) v; }
#include "ev.c"
static JanetFiber F[3];
static struct { JanetAbstractHead head; JanetChannel ch; } chbox;
void harness(void) {
    JanetChannel *ch = &chbox.ch;
    memset(ch, 0, sizeof(*ch));
    Janet *idata = malloc(sizeof(Janet) * 4);
    JanetChannelPending *rdata = malloc(sizeof(JanetChannelPending) * 4), *wdata = malloc(sizeof(JanetChannelPending) * 4);
#ifndef VF_REPLAY
    __CPROVER_assume(idata && rdata && wdata);
#endif
    for (int i = 0; i < 4; i++) idata[i] = janet_wrap_nil();
    /* distinct item values 100+i at the occupied ring positions */
    for (int i = 0; i < VF_NI; i++) idata[(VF_IH + i) % 4] = janet_wrap_number(100.0 + i);
    ch->items.data = idata; ch->items.capacity = 4; ch->items.head = VF_IH; ch->items.tail = (VF_IH + VF_NI) % 4;
    for (int i = 0; i < VF_NR; i++) { JanetChannelPending p; p.thread = &janet_vm; p.fiber = &F[1]; p.sched_id = 0; p.mode = JANET_CP_MODE_READ; rdata[(VF_RH + i) % 4] = p; }
    for (int i = 0; i < VF_NW; i++) { JanetChannelPending p; p.thread = &janet_vm; p.fiber = &F[2]; p.sched_id = 0; p.mode = JANET_CP_MODE_WRITE; wdata[(VF_RH + i) % 4] = p; }
    ch->read_pending.data = rdata; ch->read_pending.capacity = 4; ch->read_pending.head = VF_RH; ch->read_pending.tail = (VF_RH + VF_NR) % 4;
    ch->write_pending.data = wdata; ch->write_pending.capacity = 4; ch->write_pending.head = VF_RH; ch->write_pending.tail = (VF_RH + VF_NW) % 4;
    ch->is_threaded = 0;
    VF_WITNESS("channel mark hook called");
    janet_chanat_mark(ch, sizeof(*ch));
    for (int i = 0; i < VF_NI; i++) VF_ASSERT(was_marked_num(100.0 + i), "a value queued in the channel was not marked (it would be freed while still takeable)");
    if (VF_NR > 0) VF_ASSERT(was_marked_ptr(&F[1]), "the fiber of a pending taker was not marked");
    if (VF_NW > 0) VF_ASSERT(was_marked_ptr(&F[2]), "the fiber of a pending giver was not marked");
    VF_ASSERT(nmarked == VF_NI + VF_NR + VF_NW, "the hook marked a slot outside the occupied ring positions");
    VF_WITNESS("channel mark end");
}
#elif VF_CASE == 2
void *janet_gcalloc(enum JanetMemoryType type, size_t size) { (void) type; return malloc(size); }
void harness(void) {
    /* an on-stack closure environment of a fiber in an arbitrary status */
    static JanetFiber fb; static Janet stack[16]; static JanetFuncEnv env;
    int st = vf_range(0, 15);
    memset(&fb, 0, sizeof(fb));
    fb.flags = st << JANET_FIBER_STATUS_OFFSET;
    fb.data = stack; fb.capacity = 16; fb.frame = JANET_FRAME_SIZE; fb.stackstart = JANET_FRAME_SIZE + 2; fb.stacktop = JANET_FRAME_SIZE + 2;
    for (int i = 0; i < 16; i++) stack[i] = janet_wrap_number(i);
    JanetStackFrame *fr = (JanetStackFrame *)(stack + fb.frame - JANET_FRAME_SIZE);
    memset(fr, 0, sizeof(*fr));
    fr->prevframe = 0; fr->env = &env; fr->func = NULL; fr->pc = NULL; fr->flags = 0;
    env.offset = fb.frame; env.length = 2; env.as.fiber = &fb;
    VF_WITNESS("maybe detach called");
    janet_env_maybe_detach(&env);
    int finished = st == JANET_STATUS_DEAD || st == JANET_STATUS_ERROR || (st >= JANET_STATUS_USER0 && st <= JANET_STATUS_USER4);
    if (finished) VF_ASSERT(env.offset <= 0, "environment of a finished fiber was not detached");
    else VF_ASSERT(env.offset == fb.frame && env.as.fiber == &fb, "the collector detached the environment of a fiber that can still be resumed (closures stop sharing variables with the frame)");
    VF_WITNESS("maybe detach end");
}
#else
/* container marking through the real janet_mark with the depth budget at its last level */
#include "gc.c"
static struct { JanetTupleHead head; Janet data[2]; } tup;
static struct { JanetStructHead head; JanetKV kv[2]; } str;
static int in_roots(Janet x) {
    for (size_t i = 0; i < 16; i++) if (i < janet_vm.root_count && janet_vm.roots[i].type == x.type && janet_vm.roots[i].as.u64 == x.as.u64) return 1;
    return 0;
}
void harness(void) {
    janet_vm.roots = malloc(sizeof(Janet) * 16); janet_vm.root_count = 0; janet_vm.root_capacity = 16;
#ifndef VF_REPLAY
    __CPROVER_assume(janet_vm.roots != 0);
#endif
    depth = 1;   /* the object itself is marked, its children must be deferred to the root list */
    Janet a = janet_wrap_number(11), b = janet_wrap_number(22), c = janet_wrap_number(33), d = janet_wrap_number(44);
    static JanetArray arr; static Janet adata[2]; static JanetTable tab, proto; static JanetKV tkv[2];
    VF_WITNESS("container mark called");
#if VF_CASE == 3
    adata[0] = a; adata[1] = b; arr.data = adata; arr.count = 2; arr.capacity = 2; arr.gc.flags = JANET_MEMORY_ARRAY;
    janet_mark(janet_wrap_array(&arr));
    VF_ASSERT(arr.gc.flags & JANET_MEM_REACHABLE, "array not marked reachable");
    VF_ASSERT(in_roots(a) && in_roots(b) && janet_vm.root_count == 2, "an array element was not handed to the marker");
#elif VF_CASE == 4
    tup.head.length = 2; tup.head.gc.flags = JANET_MEMORY_TUPLE; tup.data[0] = a; tup.data[1] = b;
    janet_mark(janet_wrap_tuple(tup.data));
    VF_ASSERT(tup.head.gc.flags & JANET_MEM_REACHABLE, "tuple not marked reachable");
    VF_ASSERT(in_roots(a) && in_roots(b) && janet_vm.root_count == 2, "a tuple element was not handed to the marker");
#elif VF_CASE == 5
    str.head.length = 2; str.head.capacity = 2; str.head.gc.flags = JANET_MEMORY_STRUCT; str.head.proto = NULL;
    str.kv[0].key = a; str.kv[0].value = b; str.kv[1].key = c; str.kv[1].value = d;
    janet_mark(janet_wrap_struct(str.kv));
    VF_ASSERT(str.head.gc.flags & JANET_MEM_REACHABLE, "struct not marked reachable");
    VF_ASSERT(in_roots(a) && in_roots(b) && in_roots(c) && in_roots(d), "a struct key or value was not handed to the marker");
#else
    tkv[0].key = a; tkv[0].value = b; tkv[1].key = c; tkv[1].value = d;
    tab.data = tkv; tab.capacity = 2; tab.count = 2; tab.deleted = 0; tab.gc.flags = JANET_MEMORY_TABLE; tab.proto = &proto;
    proto.data = NULL; proto.capacity = 0; proto.count = 0; proto.gc.flags = JANET_MEMORY_TABLE; proto.proto = NULL;
    janet_mark(janet_wrap_table(&tab));
    VF_ASSERT(tab.gc.flags & JANET_MEM_REACHABLE, "table not marked reachable");
    VF_ASSERT(in_roots(a) && in_roots(b) && in_roots(c) && in_roots(d), "a table key or value was not handed to the marker");
    VF_ASSERT((proto.gc.flags & JANET_MEM_REACHABLE) || in_roots(janet_wrap_table(&proto)), "the prototype table was not marked");
#endif
    VF_WITNESS("container mark end");
}
#endif
