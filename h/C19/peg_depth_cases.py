import os
import re
def cases(tier, hdr, path):
    src = open(os.path.join(os.environ.get("VF_REPO", "/repo"), "src/include/janet.h")).read()
    m = re.search(r"typedef enum \{\s*RULE_LITERAL(.*?)\} JanetPegOpcod", src, re.S)
    names = ["RULE_LITERAL"] + [x.strip().split(",")[0] for x in m.group(1).split("\n") if x.strip().startswith("RULE_")]
    R = {n: i for i, n in enumerate(names)}
    out = []
    def leaf(ok):  # matches one char (ok) / needs 3 chars (fails on <=2)
        return [R["RULE_NCHAR"], 1 if ok else 3]
    for ok in (1, 0):
        L = leaf(ok)
        progs = {
            "not": [R["RULE_NOT"], 2] + L,
            "look": [R["RULE_LOOK"], 0, 3] + L,
            "if": [R["RULE_IF"], 3, 3] + L,
            "ifnot": [R["RULE_IFNOT"], 3, 3] + L,
            "choice": [R["RULE_CHOICE"], 2, 4, 4] + L,
            "sequence": [R["RULE_SEQUENCE"], 2, 4, 4] + L,
            "between": [R["RULE_BETWEEN"], 0, 2, 4] + L,
            "to": [R["RULE_TO"], 2] + L,
            "thru": [R["RULE_THRU"], 2] + L,
            "capture": [R["RULE_CAPTURE"], 3, 0] + L,
            "drop": [R["RULE_DROP"], 2] + L,
            "accumulate": [R["RULE_ACCUMULATE"], 3, 0] + L,
        }
        for n, p in progs.items():
            out.append({"name": "%s_%s" % (n, "leafok" if ok else "leaffail"), "D": ["-DVF_RULE=%d" % p[0], "-DVF_BYTECODE={%s}" % ",".join(map(str, p))]})
    return out
