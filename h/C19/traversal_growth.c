/* VF
{
 "defines": ["-DJANET_NO_NANBOX"],
 "units": ["wrap.c", "state.c", "util.c"],
 "backend": "cadical",
 "unwind": 4,
 "unwind_functions": {"harness": 132},
 "timeout": 200,
 "no_body_deny_re": "^(push_traversal_node|janet_panic)",
 "cases": [{"name": "k0", "D": ["-DVF_K=0"]}, {"name": "k1", "D": ["-DVF_K=1"]}, {"name": "k125", "D": ["-DVF_K=125"]}, {"name": "k126", "D": ["-DVF_K=126"]}, {"name": "k127", "D": ["-DVF_K=127"]}, {"name": "fresh", "D": ["-DVF_K=-1"]},
           {"name": "proto_cycle", "D": ["-DVF_PROTO"], "unwind": 202, "tier": "thorough", "timeout": 1200}],
 "functions_encoded": ["value.c: push_traversal_node (explicit stack of janet_equals / janet_compare / janet_hash, which therefore never recurse natively)", "table.c: janet_table_get, janet_table_get_ex on a prototype cycle"],
 "asserted": ["R2: from a traversal stack of capacity 128 with k entries used (k at and around the growth threshold), pushing one node writes inside the (possibly re-allocated) block, keeps traversal < traversal_top, and preserves the nodes below (CBMC bounds checks + explicit assertions)",
              "R5: a lookup of an absent key along a prototype chain that is a cycle terminates within JANET_MAX_PROTO_DEPTH steps and yields nil"],
 "bounds": ["stack capacity 128 (the real initial size), fill levels 0,1,125,126,127 and the never-allocated state; prototype cycle of length 1"],
 "stubs": ["janet_panic family = end of path"],
 "outside_claim": ["later doublings (same code path with larger sizes)", "native stack consumption"]
}
VF */
#include "vf_stubs.h"
#include "state.h"
#ifdef VF_PROTO
#define VF_ABSTRACT_HASH
#include "vf_tagsplit.h"
int32_t vf_hash(Janet x) { (void) x; return 0; }
#define janet_hash vf_hash
#define janet_equals vf_equals
#include "util.h"
#include "gc.h"
void *janet_gcalloc(enum JanetMemoryType type, size_t size) { (void) type; return malloc(size); }
void *janet_smalloc(size_t n) { return malloc(n); }
void janet_sfree(void *p) { free(p); }
const JanetKV *janet_dict_find(const JanetKV *buckets, int32_t cap, Janet key);
#include "table.c"
void harness(void) {
    janet_vm.traversal = NULL; janet_vm.traversal_base = NULL; janet_vm.traversal_top = NULL;
    JanetTable t; memset(&t, 0, sizeof(t));
    JanetKV kv[2];
    kv[0].key = janet_wrap_nil(); kv[0].value = janet_wrap_nil(); kv[1] = kv[0];
    t.data = kv; t.capacity = 2; t.count = 0; t.deleted = 0;
    t.proto = &t;       /* a prototype cycle */
    double k = vf_f64(); VF_ASSUME(k == k);
    Janet r = janet_table_get(&t, janet_wrap_number(k));
    VF_ASSERT(janet_checktype(r, JANET_NIL), "lookup of an absent key on a prototype cycle is not nil");
    JanetTable *which = NULL;
    r = janet_table_get_ex(&t, janet_wrap_number(k), &which);
    VF_ASSERT(janet_checktype(r, JANET_NIL) && which == NULL, "get_ex on a prototype cycle");
    VF_WITNESS("proto cycle end");
}
#else
#include "value.c"
void harness(void) {
    JanetTraversalNode *base = NULL;
#if VF_K >= 0
    base = malloc(sizeof(JanetTraversalNode) * 128);
#ifndef VF_REPLAY
    __CPROVER_assume(base != 0);
#endif
    for (int i = 0; i <= VF_K && i < 128; i++) { base[i].self = (JanetGCObject *)(uintptr_t)(0x1000 + i); base[i].other = NULL; base[i].index = i; base[i].index2 = 0; }
    janet_vm.traversal_base = base; janet_vm.traversal_top = base + 128; janet_vm.traversal = base + VF_K;
#else
    janet_vm.traversal_base = NULL; janet_vm.traversal_top = NULL; janet_vm.traversal = NULL;
#endif
    static int lhs, rhs;
    push_traversal_node(&lhs, &rhs, 7);
    VF_ASSERT(janet_vm.traversal_base != NULL, "stack allocated");
    VF_ASSERT(janet_vm.traversal > janet_vm.traversal_base && janet_vm.traversal < janet_vm.traversal_top, "stack pointer outside the allocated block after a push");
    VF_ASSERT(janet_vm.traversal->self == (JanetGCObject *) &lhs && janet_vm.traversal->index2 == 7, "pushed node");
#if VF_K >= 1
    VF_ASSERT(janet_vm.traversal - janet_vm.traversal_base == VF_K + 1, "stack depth after push");
    VF_ASSERT(janet_vm.traversal_base[VF_K].index == VF_K && janet_vm.traversal_base[1].index == 1, "existing nodes were not preserved across the growth");
#endif
    VF_WITNESS("push end");
}
#endif
