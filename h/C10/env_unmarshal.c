/* VF
{
 "defines": ["-DJANET_NO_NANBOX"],
 "units": ["vm.c", "fiber.c", "value.c", "wrap.c", "state.c", "util.c", "tuple.c", "array.c", "buffer.c", "table.c", "struct.c", "string.c"],
 "unit_defines": {"vm.c": ["-DJANET_VERIF_DISPATCH_HOOK(op)=vf_dispatch_hook(&(op))"]},
 "remove_bodies": ["janet_binop_call", "janet_mcall", "janet_getmethod", "janet_sandbox", "janet_sandbox_assert", "janet_init", "janet_deinit", "janet_in", "janet_get", "janet_put", "janet_next", "janet_length", "janet_lengthv", "janet_getindex", "janet_putindex", "janet_compare", "janet_equals", "janet_hash", "call_nonfn", "janet_call", "janet_pcall", "janet_symbol", "janet_csymbol", "janet_to_string", "janet_to_string_b", "janet_table_put", "janet_table_get", "janet_struct_put", "janet_struct_end", "janet_struct_begin"],
 "no_body_deny_re": "^(janet_fiber|run_vm|janet_continue|janet_check_can_resume|janet_env_valid|unmarshal_one|readint|readnat)",
 "cbmc": ["--no-undefined-shift-check", "--no-signed-overflow-check", "--no-div-by-zero-check"],
 "cbmc_remove": ["--signed-overflow-check", "--div-by-zero-check", "--undefined-shift-check"],
 "backend": "cadical",
 "unwind": 12,
 "unwind_functions": {"run_vm": 4, "harness": 34},
 "timeout": 400,
 "mem_gb": 6,
 "tier": "thorough",
 "cases": [{"name": "load_foreign_fiber", "D": ["-DVF_OWNED=0", "-DVF_STORE=0"], "timeout": 1800}, {"name": "load_matching_frame", "D": ["-DVF_OWNED=1", "-DVF_STORE=0"], "timeout": 1800}, {"name": "store_foreign_fiber", "D": ["-DVF_OWNED=0", "-DVF_STORE=1"], "timeout": 1800}, {"name": "store_matching_frame", "D": ["-DVF_OWNED=1", "-DVF_STORE=1"], "timeout": 1800}],
 "functions_encoded": ["marsh.c: unmarshal_one_env, unmarshal_one (reference case), readint, readnat", "fiber.c: janet_env_valid", "vm.c: run_vm JOP_LOAD_UPVALUE / JOP_SET_UPVALUE"],
 "asserted": ["U2+U4: a closure environment read from an untrusted image with ARBITRARY offset and length integers, pointing at a fiber, is used by one upvalue load and one upvalue store of the real interpreter without any access outside the fiber's stack or the environment's value array: either the environment fails validation (error raised / treated as empty) or offset+index lies inside the frame it names"],
 "bounds": ["offset and length: any 32-bit integers (5-byte encoding); target fiber: one real frame with 2 slots; upvalue index 0..255 from the instruction word"],
 "stubs": ["GC allocation = malloc", "janet_panic family = end of path", "_setjmp returns 0", "the fiber is supplied through the image's reference table (real LB_REFERENCE path)"],
 "outside_claim": ["fibers that are themselves forged (unmarshal_one_fiber validation)", "funcdef field validation"]
}
VF */
#include <janet.h>
#include "features.h"
#include "vf_stubs.h"
#include "state.h"
#include "gc.h"
#include "fiber.h"
#include <setjmp.h>
void *janet_gcalloc(enum JanetMemoryType type, size_t size) {
    JanetGCObject *p = malloc(size);
#ifndef VF_REPLAY
    __CPROVER_assume(p != 0);
#endif
    memset(p, 0, size);
    p->flags = type; p->data.next = NULL;
    return p;
}
void janet_gcpressure(size_t s) { (void) s; }
void janet_collect(void) { }
void janet_fiber_did_resume(JanetFiber *fiber) { (void) fiber; }
#ifndef VF_REPLAY
int _setjmp(jmp_buf env) { (void) env; return 0; }
#endif
#include "marsh.c"
#define VF_OPC (VF_STORE ? JOP_SET_UPVALUE : JOP_LOAD_UPVALUE)
static int vf_step;
void vf_dispatch_hook(uint8_t *opcode) {   /* H3: pin the dispatched opcode (E12) */
    if (vf_step == 0) { vf_step = 1; if (*opcode != VF_OPC) VF_CUT(); *opcode = VF_OPC; }
    else { vf_step = 2; if (*opcode != (JOP_RETURN_NIL | 0x80)) VF_CUT(); *opcode = JOP_RETURN_NIL | 0x80; }
}

static uint32_t tbc[1] = { JOP_RETURN_NIL };
static JanetFuncDef tdef;
static struct { JanetFunction f; JanetFuncEnv *envs[1]; } tfn;
static uint32_t bc[3];
static JanetFuncDef def;
static int32_t envidx[1] = { 0 };
static struct { JanetFunction f; JanetFuncEnv *envs[1]; } fn;

void harness(void) {
    janet_vm.traversal = NULL; janet_vm.traversal_base = NULL; janet_vm.traversal_top = NULL;
    janet_vm.stackn = 0; janet_vm.fiber = NULL; janet_vm.root_fiber = NULL; janet_vm.signal_buf = NULL; janet_vm.return_reg = NULL;
    janet_vm.coerce_error = 0; janet_vm.gc_interval = 0x7FFFFFFF; janet_vm.next_collection = 0; janet_vm.gc_suspend = 1; janet_vm.auto_suspend = 0;
    /* the fiber the image's environment points at: one real frame of a 2-slot function */
    tdef.bytecode = tbc; tdef.bytecode_length = 1; tdef.slotcount = 2; tdef.arity = 0; tdef.min_arity = 0; tdef.max_arity = 0;
    tfn.f.def = &tdef;
    JanetFiber *tf = janet_fiber(&tfn.f, 16, 0, NULL);
    VF_ASSERT(tf != NULL, "target fiber");
    for (int i = 0; i < 2; i++) tf->data[tf->frame + i] = janet_wrap_number(10 + i);
    /* untrusted image bytes of one funcenv: offset, length (arbitrary), then a reference to the fiber */
    uint8_t img[13];
    img[0] = LB_INTEGER; for (int i = 1; i < 5; i++) img[i] = vf_u8();
    img[5] = LB_INTEGER; for (int i = 6; i < 10; i++) img[i] = vf_u8();
    img[10] = LB_REFERENCE; img[11] = 0; img[12] = 0;
    UnmarshalState st; memset(&st, 0, sizeof(st));
    st.start = img; st.end = img + 12;
    st.lookup = NULL; janet_v_push(st.lookup, janet_wrap_fiber(tf));
    JanetFuncEnv *env = NULL;
    VF_WITNESS("env image about to be read");
    (void) unmarshal_one_env(&st, img, &env, 0);
    VF_ASSERT(env != NULL, "env produced");
#if VF_OWNED
    /* the fiber's frame really belongs to this environment and has the matching slot count: the valid case */
    janet_stack_frame(tf->data + tf->frame)->env = env;
#endif
    /* a verified function that loads and stores upvalue (env 0, index C) */
    uint32_t vindex = vf_u8();
    bc[0] = VF_OPC | (0u << 8) | (0u << 16) | (vindex << 24);
    bc[1] = JOP_RETURN_NIL | 0x80; bc[2] = JOP_RETURN_NIL | 0x80;
    def.bytecode = bc; def.bytecode_length = 3; def.slotcount = 1; def.environments = envidx; def.environments_length = 1;
    fn.f.def = &def; fn.envs[0] = env;
    JanetFiber *fiber = janet_fiber(&fn.f, 16, 0, NULL);
    VF_ASSERT(fiber != NULL, "fiber");
    fiber->data[fiber->frame] = janet_wrap_number(5);
    Janet out;
    VF_WITNESS("upvalue instruction about to run");
    (void) janet_continue(fiber, janet_wrap_nil(), &out);
    VF_ASSERT(vf_step >= 1, "the upvalue instruction was never dispatched (vacuous run)");
    /* reached only if no error was raised: the access was inside the named frame */
    VF_ASSERT(env->offset <= 0 || (env->offset == tf->frame && (int32_t) vindex < env->length && env->length == 2), "an unvalidated on-stack environment was used for an upvalue access");
}
