/* VF
{
 "defines": ["-DJANET_NO_NANBOX", "-DVF_STUB_ABSTRACT"],
 "units": ["wrap.c", "capi.c"],
 "remove_bodies": ["janet_panicv","janet_panic","janet_panics","janet_panicf","janet_signalv","janet_panic_type","janet_panic_abstract"],
 "cases_py": "int64_ops_cases.py",
 "unwind": 4,
 "backend": "cadical",
 "timeout": 240,
 "functions_encoded": ["inttypes.c: cfun_it_{s64,u64}_{add,sub,subi,mul,div,divi,rem,remi,divf,divfi,mod,modi,and,or,xor,not,lshift,rshift}", "inttypes.c: janet_unwrap_s64, janet_unwrap_u64, janet_is_int"],
 "asserted": ["I1: no division trap / signed overflow / UB conversion for all 64-bit operand pairs (CBMC built-in checks, full width)",
              "I2: a call that returns normally yields exactly the two's-complement reference result; error cases are exactly: divisor zero for / % div (and INT64_MIN by -1 for / % div)",
              "number operands: accepted iff integral and inside the int64/uint64 range check"],
 "bounds": ["argc = 2 (one binary step; the variadic loop just repeats it)", "operands: boxed s64, boxed u64 (all 2^64 payloads) or number (all doubles)", "VALUE obligations of * / % div mod: both operands sign-/zero-extended 12-bit (quick) or 20-bit (thorough) values, plus self = each of 12 boundary values x other = any of the same 12 (solver picks); TRAP obligations (division by zero, INT64_MIN/-1, required errors): full 64-bit width", "shift counts 0..63"],
 "stubs": ["janet_abstract (malloc-backed, no GC list)", "janet_panic* = end of path (vf_panicked)"],
 "outside_claim": ["numeric-string operands (scanner checked under C13/C14 scan harness)", "shift counts outside 0..63 (undefined in C; reported under ub_formal if flagged)", "left shift of a negative int64 is formally UB in C99 (gcc defines it); filed as ub_formal"]
}
VF */
#include "vf_stubs.h"
#include "inttypes.c"

#ifndef VF_FN
#error "case macros missing"
#endif

/* operator ids */
#define O_ADD 1
#define O_SUB 2
#define O_SUBI 3
#define O_MUL 4
#define O_DIV 5
#define O_DIVI 6
#define O_REM 7
#define O_REMI 8
#define O_DIVF 9
#define O_DIVFI 10
#define O_MOD 11
#define O_MODI 12
#define O_AND 13
#define O_OR 14
#define O_XOR 15
#define O_LSH 16
#define O_RSH 17

/* rhs kinds */
#define K_S64 0
#define K_U64 1
#define K_NUM 2

static Janet box(const JanetAbstractType *t, uint64_t bits) {
    uint64_t *b = janet_abstract(t, 8);
    *b = bits;
    return janet_wrap_abstract(b);
}

#if VF_T == 0
typedef int64_t T;
#define SELF_TYPE (&janet_s64_type)
#else
typedef uint64_t T;
#define SELF_TYPE (&janet_u64_type)
#endif

/* VALUE obligations of the division family: operands are sign-extended VF_NARROW-bit
 * values (structurally narrow, so the divider circuits stay small) or, in the
 * edge cases, one operand is a concrete boundary value (VF_EDGE_A / VF_EDGE_B). */
#ifdef VF_NARROW
#define NARROWED(v) ((uint64_t)(((int64_t)((v) << (64 - VF_NARROW))) >> (64 - VF_NARROW)))
#else
#define NARROWED(v) (v)
#endif


#ifdef VF_TRAPONLY
#define WANT(e) 0
#else
#define WANT(e) (e)
#endif

#ifdef VF_EDGEGRID
/* boundary values: both operands range over this table (solver picks the pair) */
static const uint64_t vf_edges[12] = {0ULL, 1ULL, (uint64_t) -1, (uint64_t) INT64_MIN, (uint64_t) INT64_MAX, 1ULL << 31, 1ULL << 32,
                                      1ULL << 53, (uint64_t) INT64_MIN + 1, UINT64_MAX - 1, 3ULL, (uint64_t) -3};
#undef NARROWED
#define NARROWED(v) (vf_edges[(v) % 12])
#endif
#if defined(VF_NARROW) && VF_T == 1 && !defined(VF_EDGEGRID)
/* unsigned self type: zero-extended narrow operands */
#undef NARROWED
#define NARROWED(v) ((uint64_t)(v) & ((1ULL << VF_NARROW) - 1))
#endif

void harness(void) {
#ifdef VF_EDGE_AI
    uint64_t a = vf_edges[VF_EDGE_AI];  /* concrete boundary value per case */
#else
    uint64_t a = NARROWED(vf_u64());   /* self payload (argv[0]) */
#endif
    uint64_t b;              /* other operand as 64-bit pattern after conversion */
    Janet argv[2];
    argv[0] = box(SELF_TYPE, a);
#if VF_RHS == K_S64
    b = NARROWED(vf_u64());
    argv[1] = box(&janet_s64_type, b);
#elif VF_RHS == K_U64
    b = NARROWED(vf_u64());
    argv[1] = box(&janet_u64_type, b);
#else
    double d = vf_f64();
    argv[1] = janet_wrap_number(d);
    /* reference conversion: the unwrap must accept exactly in-range integral doubles */
    int accept;
#if VF_T == 0
    accept = (d == d) && d >= -9223372036854775808.0 && d < 9223372036854775808.0 && d == (double)(int64_t)(d >= -9223372036854775808.0 && d < 9223372036854775808.0 ? d : 0);
    b = accept ? (uint64_t)(int64_t) d : 0;
#else
    accept = (d == d) && d >= 0 && d < 18446744073709551616.0 && d == (double)(uint64_t)((d >= 0 && d < 18446744073709551616.0) ? d : 0);
    b = accept ? (uint64_t) d : 0;
#endif
#endif
#if VF_OP == O_LSH || VF_OP == O_RSH
    VF_ASSUME(b < 64);
#endif

    Janet r = VF_FN(2, argv);
    /* ---- reached only when the call returned normally ---- */
#if VF_RHS == K_NUM
    VF_ASSERT(accept, "a number operand outside the 64-bit integer range was accepted");
#endif
    VF_ASSERT(janet_checktype(r, JANET_ABSTRACT), "result is boxed");
    VF_ASSERT(janet_abstract_type(janet_unwrap_abstract(r)) == SELF_TYPE, "result has the left operand's type");
    uint64_t got = *(uint64_t *) janet_unwrap_abstract(r);
    uint64_t x = a, y = b;   /* x op y in argument order */
#if VF_OP == O_SUBI || VF_OP == O_DIVI || VF_OP == O_REMI || VF_OP == O_DIVFI || VF_OP == O_MODI
    x = b; y = a;            /* reversed-operand methods compute other OP self */
#endif
    uint64_t want = 0;
    int iserr = 0;
    T sx = (T) x, sy = (T) y;
    (void) sx; (void) sy;
#if VF_OP == O_ADD
    want = x + y;
#elif VF_OP == O_SUB || VF_OP == O_SUBI
    want = x - y;
#elif VF_OP == O_MUL
    want = x * y;
#elif VF_OP == O_AND
    want = x & y;
#elif VF_OP == O_OR
    want = x | y;
#elif VF_OP == O_XOR
    want = x ^ y;
#elif VF_OP == O_LSH
    want = x << y;
#elif VF_OP == O_RSH
#if VF_T == 0
    want = (y == 0) ? x : ((x >> y) | (((int64_t) x < 0) ? (~0ULL << (64 - y)) : 0));
#else
    want = x >> y;
#endif
#elif VF_OP == O_DIV || VF_OP == O_DIVI
    if (sy == 0) iserr = 1;
#if VF_T == 0
    else if (sy == -1 && sx == INT64_MIN) iserr = 1;
#endif
    else want = WANT((uint64_t)(sx / sy));
#elif VF_OP == O_REM || VF_OP == O_REMI
    if (sy == 0) iserr = 1;
#if VF_T == 0
    else if (sy == -1 && sx == INT64_MIN) iserr = 2; /* either an error or 0 is accepted */
#endif
    else want = WANT((uint64_t)(sx % sy));
#elif VF_OP == O_DIVF || VF_OP == O_DIVFI
    if (sy == 0) iserr = 1;
#if VF_T == 0
    else if (sy == -1 && sx == INT64_MIN) iserr = 1;
    else {
#ifndef VF_TRAPONLY
        /* floor division, reference via 128-bit arithmetic */
        int64_t q = sx / sy, rr = sx % sy;
        if (rr != 0 && ((rr < 0) != (sy < 0))) q -= 1;
        want = (uint64_t) q;
#endif
    }
#else
    else want = WANT(sx / sy);
#endif
#elif VF_OP == O_MOD || VF_OP == O_MODI
    if (sy == 0) want = x;
#if VF_T == 0
    else {
#ifndef VF_TRAPONLY
        if (sy == -1) want = 0; else {
        int64_t rr = sx % sy;
        if (rr != 0 && ((rr < 0) != (sy < 0))) rr += sy;
        want = (uint64_t) rr; }
#endif
    }
#else
    else want = WANT(sx % sy);
#endif
#endif
    if (iserr == 1) VF_ASSERT(0, "returned normally where an error is required (division by zero / INT64_MIN by -1)");
    if (iserr == 2) VF_ASSERT(got == 0, "INT64_MIN % -1: neither error nor 0");
#ifndef VF_TRAPONLY
    if (iserr == 0) VF_ASSERT(got == want, "result differs from the two's-complement reference");
#else
    (void) want;
#endif
    VF_WITNESS("int64_ops end");
}
