/* fdump.c — dumps compiled Janet functions as C initialisers (used by the E9 harnesses).
 *
 * usage: fdump <file.janet>      the file's last expression must evaluate to a function or an
 *                                array/tuple of functions.  Output (stdout): C code defining
 *                                  JanetFunction *vf_funcs[N];  void vf_gen_init(void);
 * Linked against the janet amalgamation built from the CURRENT /repo tree, so the real parser,
 * compiler, specials, optimizers and boot.janet macros produce the bytecode concretely.
 * Unsupported constant kinds are reported on stderr and make the exit status 3.
 */
#include <janet.h>
#include <stdio.h>
#include <stdlib.h>
#include <string.h>
#include <math.h>

static int nid = 0, unsupported = 0;
#define MAXO 4096
static const void *seen_ptr[MAXO]; static int seen_id[MAXO]; static int nseen = 0;
static char *initbuf; static size_t initlen = 0, initcap = 0;
static void ini(const char *fmt, ...) {
    va_list ap; char tmp[4096];
    va_start(ap, fmt); int n = vsnprintf(tmp, sizeof tmp, fmt, ap); va_end(ap);
    if (initlen + n + 1 > initcap) { initcap = (initcap + n + 1) * 2; initbuf = realloc(initbuf, initcap); }
    memcpy(initbuf + initlen, tmp, n + 1); initlen += n;
}
static int lookup(const void *p) { for (int i = 0; i < nseen; i++) if (seen_ptr[i] == p) return seen_id[i]; return -1; }
static void remember(const void *p, int id) { seen_ptr[nseen] = p; seen_id[nseen++] = id; }

static int dump_def(JanetFuncDef *def);
static int dump_func(JanetFunction *f);

static void bytes_lit(const uint8_t *s, int32_t n) {
    printf("{");
    for (int32_t i = 0; i < n; i++) printf("%u,", s[i]);
    printf("0}");
}
/* emits an expression (into buf) that evaluates to the Janet value x at init time */
static void value_expr(Janet x, char *buf, size_t cap) {
    switch (janet_type(x)) {
        case JANET_NIL: snprintf(buf, cap, "janet_wrap_nil()"); return;
        case JANET_BOOLEAN: snprintf(buf, cap, "janet_wrap_boolean(%d)", janet_unwrap_boolean(x)); return;
        case JANET_NUMBER: {
            double d = janet_unwrap_number(x);
            union { double d; unsigned long long u; } u; u.d = d;
            snprintf(buf, cap, "vf_num_bits(0x%llxULL) /* %.17g */", u.u, d); return;
        }
        case JANET_STRING: case JANET_SYMBOL: case JANET_KEYWORD: {
            const uint8_t *s = janet_unwrap_string(x);
            int id = lookup(s);
            if (id < 0) {
                id = nid++; remember(s, id);
                printf("static struct { JanetStringHead head; uint8_t data[%d]; } vf_str_%d = { {{0,{0}}, %d, %d}, ", janet_string_length(s) + 1, id, janet_string_length(s), janet_string_hash(s));
                bytes_lit(s, janet_string_length(s));
                printf(" };\n");
            }
            snprintf(buf, cap, "janet_wrap_%s(vf_str_%d.data)", janet_type(x) == JANET_STRING ? "string" : (janet_type(x) == JANET_SYMBOL ? "symbol" : "keyword"), id);
            return;
        }
        case JANET_TUPLE: {
            const Janet *t = janet_unwrap_tuple(x);
            int id = lookup(t);
            if (id < 0) {
                id = nid++; remember(t, id);
                int32_t n = janet_tuple_length(t);
                printf("static struct { JanetTupleHead head; Janet data[%d]; } vf_tup_%d;\n", n ? n : 1, id);
                ini("    vf_tup_%d.head.length = %d; vf_tup_%d.head.hash = %d; vf_tup_%d.head.gc.flags = %d; vf_tup_%d.head.sm_line = -1; vf_tup_%d.head.sm_column = -1;\n", id, n, id, janet_tuple_hash(t), id, janet_tuple_flag(t), id, id);
                for (int32_t i = 0; i < n; i++) { char e[512]; value_expr(t[i], e, sizeof e); ini("    vf_tup_%d.data[%d] = %s;\n", id, i, e); }
            }
            snprintf(buf, cap, "janet_wrap_tuple(vf_tup_%d.data)", id);
            return;
        }
        case JANET_FUNCTION: {
            int id = dump_func(janet_unwrap_function(x));
            snprintf(buf, cap, "janet_wrap_function(&vf_fn_%d.f)", id);
            return;
        }
        default:
            fprintf(stderr, "fdump: unsupported constant of type %s\n", janet_type_names[janet_type(x)]);
            unsupported = 1;
            snprintf(buf, cap, "janet_wrap_nil() /* UNSUPPORTED %s */", janet_type_names[janet_type(x)]);
            return;
    }
}

static int dump_def(JanetFuncDef *def) {
    int id = lookup(def);
    if (id >= 0) return id;
    id = nid++; remember(def, id);
    int subs[256];
    for (int32_t i = 0; i < def->defs_length; i++) subs[i] = dump_def(def->defs[i]);
    printf("static uint32_t vf_bc_%d[%d] = {", id, def->bytecode_length ? def->bytecode_length : 1);
    for (int32_t i = 0; i < def->bytecode_length; i++) printf("0x%08xu,", def->bytecode[i]);
    printf("};\n");
    printf("static Janet vf_k_%d[%d];\n", id, def->constants_length ? def->constants_length : 1);
    printf("static JanetFuncDef *vf_sub_%d[%d] = {", id, def->defs_length ? def->defs_length : 1);
    for (int32_t i = 0; i < def->defs_length; i++) printf("&vf_def_%d,", subs[i]);
    if (!def->defs_length) printf("0");
    printf("};\n");
    printf("static int32_t vf_envs_%d[%d] = {", id, def->environments_length ? def->environments_length : 1);
    for (int32_t i = 0; i < def->environments_length; i++) printf("%d,", def->environments[i]);
    if (!def->environments_length) printf("0");
    printf("};\n");
    printf("static JanetSourceMapping vf_sm_%d[%d] = {", id, def->bytecode_length ? def->bytecode_length : 1);
    for (int32_t i = 0; i < def->bytecode_length; i++) {
        if (def->sourcemap) printf("{%d,%d},", def->sourcemap[i].line, def->sourcemap[i].column); else printf("{-1,-1},");
    }
    printf("};\n");
    printf("static JanetFuncDef vf_def_%d;\n", id);
    ini("    vf_def_%d.gc.flags = 0; vf_def_%d.environments = vf_envs_%d; vf_def_%d.constants = vf_k_%d; vf_def_%d.defs = vf_sub_%d; vf_def_%d.bytecode = vf_bc_%d;\n", id, id, id, id, id, id, id, id, id);
    ini("    vf_def_%d.closure_bitset = NULL; vf_def_%d.sourcemap = vf_sm_%d; vf_def_%d.source = NULL; vf_def_%d.name = NULL; vf_def_%d.symbolmap = NULL;\n", id, id, id, id, id, id);
    ini("    vf_def_%d.flags = %d; vf_def_%d.slotcount = %d; vf_def_%d.arity = %d; vf_def_%d.min_arity = %d; vf_def_%d.max_arity = %d;\n", id, def->flags & ~(JANET_FUNCDEF_FLAG_HASSYMBOLMAP | JANET_FUNCDEF_FLAG_HASNAME | JANET_FUNCDEF_FLAG_HASSOURCE | JANET_FUNCDEF_FLAG_HASCLOBITSET), id, def->slotcount, id, def->arity, id, def->min_arity, id, def->max_arity);
    ini("    vf_def_%d.constants_length = %d; vf_def_%d.bytecode_length = %d; vf_def_%d.environments_length = %d; vf_def_%d.defs_length = %d; vf_def_%d.symbolmap_length = 0;\n", id, def->constants_length, id, def->bytecode_length, id, def->environments_length, id, def->defs_length, id);
    for (int32_t i = 0; i < def->constants_length; i++) { char e[512]; value_expr(def->constants[i], e, sizeof e); ini("    vf_k_%d[%d] = %s;\n", id, i, e); }
    return id;
}

static int dump_func(JanetFunction *f) {
    int id = lookup(f);
    if (id >= 0) return id;
    int did = dump_def(f->def);
    id = nid++; remember(f, id);
    int n = f->def->environments_length;
    printf("static struct { JanetFunction f; JanetFuncEnv *envs[%d]; } vf_fn_%d;\n", n ? n : 1, id);
    ini("    vf_fn_%d.f.gc.flags = 0; vf_fn_%d.f.def = &vf_def_%d;\n", id, id, did);
    if (n) { fprintf(stderr, "fdump: function with captured environments is not supported as an entry/constant\n"); unsupported = 1; }
    return id;
}

int main(int argc, char **argv) {
    if (argc < 2) { fprintf(stderr, "usage: fdump file.janet\n"); return 2; }
    janet_init();
    JanetTable *env = janet_core_env(NULL);
    FILE *f = fopen(argv[1], "rb");
    if (!f) { perror("open"); return 2; }
    fseek(f, 0, SEEK_END); long n = ftell(f); fseek(f, 0, SEEK_SET);
    char *src = malloc(n + 1); fread(src, 1, n, f); src[n] = 0; fclose(f);
    Janet out;
    if (janet_dostring(env, src, argv[1], &out)) { fprintf(stderr, "fdump: evaluation failed\n"); return 2; }
    int ids[256]; int cnt = 0;
    printf("/* generated by fdump from %s with the janet built from the current tree */\n", argv[1]);
    printf("static Janet vf_num_bits(unsigned long long b) { union { double d; unsigned long long u; } x; x.u = b; return janet_wrap_number(x.d); }\n");
    if (janet_checktype(out, JANET_FUNCTION)) ids[cnt++] = dump_func(janet_unwrap_function(out));
    else {
        const Janet *items; int32_t len;
        if (!janet_indexed_view(out, &items, &len)) { fprintf(stderr, "fdump: result is not a function or sequence of functions\n"); return 2; }
        for (int32_t i = 0; i < len; i++) {
            if (!janet_checktype(items[i], JANET_FUNCTION)) { fprintf(stderr, "fdump: element %d is not a function\n", i); return 2; }
            ids[cnt++] = dump_func(janet_unwrap_function(items[i]));
        }
    }
    printf("#define VF_NFUNCS %d\nstatic JanetFunction *vf_funcs[%d];\n", cnt, cnt);
    printf("static void vf_gen_init(void) {\n%s", initbuf ? initbuf : "");
    for (int i = 0; i < cnt; i++) printf("    vf_funcs[%d] = &vf_fn_%d.f;\n", i, ids[i]);
    printf("}\n");
    janet_deinit();
    return unsupported ? 3 : 0;
}
