/* VF
{
 "defines": ["-DJANET_NO_NANBOX"],
 "units": ["table.c", "util.c", "value.c", "wrap.c", "state.c"],
 "unit_defines": {"table.c": ["-Djanet_equals=vf_equals", "-Djanet_hash=vf_hash"], "util.c": ["-Djanet_equals=vf_equals", "-Djanet_hash=vf_hash"]},
 "backend": "cadical",
 "unwind": 17,
 "timeout": 400,
 "mem_gb": 4,
 "cases_py": "table_step_cases.py",
 "functions_encoded": ["table.c: janet_table_put, janet_table_remove, janet_table_rawget, janet_table_get, janet_table_find, janet_table_rehash, janet_memalloc_empty_local", "util.c: janet_dict_find, janet_tablen, janet_memempty", "value.c: janet_equals (numbers)"],
 "asserted": ["T1 (inductive step): from ANY table state satisfying the representation invariant (power-of-two capacity, count/deleted exact, 2*(count+deleted) <= capacity, tombstones are nil/boolean, every live key reachable from its home slot without crossing a truly empty slot, keys pairwise distinct), one put or remove with an arbitrary key and value leaves the invariant intact and, for an ARBITRARY probe key q, rawget(t', q) equals the finite-map model (q == k ? v : rawget(t, q)); nil and NaN keys are ignored; putting nil removes; count changes exactly as the model says; the prototype is never consulted by put/remove/rawget",
              "T3: janet_table_get falls back to the prototype exactly when the key is absent"],
 "bounds": ["capacity 4: all 33 occupancy shapes allowed by the load invariant; capacity 8: occupancy restricted to the 4 slots around the wrap boundary (6,7,0,1), all 81 shapes (subset in quick); keys = arbitrary non-NaN doubles constrained only by the invariant, values arbitrary numbers"],
 "stubs": ["janet_hash as called from table.c/util.c = arbitrary equality-respecting function over the step key domain (uninterpreted-function abstraction; discharged for the real hash by C03 V1)", "janet_smalloc/janet_sfree = malloc/free (scratch list not modelled)", "janet_panic family = end of path"],
 "outside_claim": ["capacities above 8", "keys other than numbers (hash/equality contract of other types is C03)", "weak tables", "table/clone, merge, to-struct (separate obligations if listed)"]
}
VF */
#include "vf_stubs.h"
#define VF_ABSTRACT_HASH
#include "vf_tagsplit.h"
#include "state.h"
#include <math.h>
void *janet_smalloc(size_t n) { void *p = malloc(n ? n : 1);
#ifndef VF_REPLAY
    __CPROVER_assume(p != 0);
#endif
    return p; }
void janet_sfree(void *p) { free(p); }

#ifndef VF_CAP
#error case macros missing
#endif
/* shape: VF_SHAPE is a string of VF_CAP characters, E empty / T tombstone / L live */
static const char shape[] = VF_SHAPE;
#define JANET_TABLE_FLAG_STACK 0x10000

static double key[VF_CAP], val[VF_CAP];

/* Hash abstraction: table.c/util.c call vf_hash, an ARBITRARY function of the key that respects equality
 * (uninterpreted-function model over the finite key domain of this step: live keys, the operation key, the probe).
 * That the real janet_hash is such a function is obligation V1 of C03. The solver is free to choose collisions. */
#define VF_DOM (VF_CAP + 2)
static double dom_key[VF_DOM];
static int32_t dom_hash[VF_DOM];
static int dom_n;
static void dom_add(double k) {
    int32_t h = vf_i32();
    for (int j = 0; j < dom_n; j++) if (dom_key[j] == k) VF_ASSUME(h == dom_hash[j]);
    dom_key[dom_n] = k; dom_hash[dom_n] = h; dom_n++;
}
int32_t vf_hash(Janet x) {
    if (x.type != JANET_NUMBER) VF_UNREACHABLE("non-number key hashed");
    double d = janet_unwrap_number(x);
    for (int j = 0; j < VF_DOM; j++) if (j < dom_n && dom_key[j] == d) return dom_hash[j];
    VF_UNREACHABLE("a key outside the step's key domain was hashed");
    return 0;
}
static int home_of(double k) { return (int)((uint32_t) vf_hash(janet_wrap_number(k)) & (VF_CAP - 1)); }

/* representation invariant of an arbitrary (possibly rehashed) table, checked with real hash */
static void check_invariant(JanetTable *t) {
    int32_t cap = t->capacity;
    VF_ASSERT(cap == 0 || (cap & (cap - 1)) == 0, "capacity is not a power of two");
    VF_ASSERT(cap <= 16, "capacity grew beyond what the step allows");
    int32_t live = 0, dead = 0;
    for (int32_t i = 0; i < cap; i++) {
        JanetKV *kv = t->data + i;
        if (janet_checktype(kv->key, JANET_NIL)) {
            if (!janet_checktype(kv->value, JANET_NIL)) { dead++; VF_ASSERT(janet_checktype(kv->value, JANET_BOOLEAN), "tombstone value is not a boolean"); }
        } else {
            live++;
            VF_ASSERT(janet_checktype(kv->key, JANET_NUMBER), "key type");
            VF_ASSERT(!janet_checktype(kv->value, JANET_NIL), "live entry with nil value");
            /* reachable from home without crossing a truly empty slot */
            int32_t h = (int32_t)((uint32_t) vf_hash(kv->key) & (uint32_t)(cap - 1));
            for (int32_t j = h; j != i; j = (j + 1) & (cap - 1)) {
                JanetKV *o = t->data + j;
                VF_ASSERT(!(janet_checktype(o->key, JANET_NIL) && janet_checktype(o->value, JANET_NIL)), "live key unreachable: empty slot between its home and its position");
            }
            for (int32_t j = 0; j < i; j++) {
                JanetKV *o = t->data + j;
                if (!janet_checktype(o->key, JANET_NIL))
                    VF_ASSERT(janet_unwrap_number(o->key) != janet_unwrap_number(kv->key), "duplicate key in table");
            }
        }
    }
    VF_ASSERT(t->count == live, "count field differs from number of live entries");
    VF_ASSERT(t->deleted == dead, "deleted field differs from number of tombstones");
    VF_ASSERT(2 * (t->count + t->deleted) <= cap, "load invariant broken");
}

void harness(void) {
    /* thread-local VM state is not zero-initialised by CBMC: the explicit traversal stack of janet_equals starts empty */
    janet_vm.traversal = NULL; janet_vm.traversal_base = NULL; janet_vm.traversal_top = NULL;
    JanetTable t, proto;
    memset(&t, 0, sizeof(t));
    t.gc.flags = JANET_TABLE_FLAG_STACK;
    t.capacity = VF_CAP;
    t.data = malloc(sizeof(JanetKV) * VF_CAP);
#ifndef VF_REPLAY
    __CPROVER_assume(t.data != 0);
#endif
    int32_t live = 0, dead = 0;
    for (int i = 0; i < VF_CAP; i++) {
        if (shape[i] == 'L') {
            key[i] = vf_f64(); val[i] = vf_f64();
            VF_ASSUME(key[i] == key[i]);
            dom_add(key[i]);
            t.data[i].key = janet_wrap_number(key[i]);
            t.data[i].value = janet_wrap_number(val[i]);
            live++;
        } else if (shape[i] == 'T') {
            t.data[i].key = janet_wrap_nil();
            t.data[i].value = janet_wrap_false();
            dead++;
        } else {
            t.data[i].key = janet_wrap_nil();
            t.data[i].value = janet_wrap_nil();
        }
    }
    t.count = live; t.deleted = dead;
    /* assume the invariant on the pre-state: reachability of every live key + distinctness */
    for (int i = 0; i < VF_CAP; i++) {
        if (shape[i] != 'L') continue;
        int h = home_of(key[i]);
        int ok = 0;
        /* allowed homes: h such that no E slot lies in [h, i) cyclically (shape is concrete) */
        for (int c = 0; c < VF_CAP; c++) {
            int good = 1;
            for (int j = c; j != i; j = (j + 1) & (VF_CAP - 1)) if (shape[j] == 'E') { good = 0; break; }
            if (good && h == c) ok = 1;
        }
        VF_ASSUME(ok);
        for (int j = 0; j < i; j++) if (shape[j] == 'L') VF_ASSUME(key[j] != key[i]);
    }
    /* a prototype holding the probe key: must never be consulted by put/remove/rawget */
    memset(&proto, 0, sizeof(proto));
    t.proto = vf_bool() ? &proto : NULL;

    double q = vf_f64();
    VF_ASSUME(q == q);
    dom_add(q);
    /* model lookup in the pre-state */
    int pre_found = 0; double pre_val = 0;
    for (int i = 0; i < VF_CAP; i++) if (shape[i] == 'L' && key[i] == q) { pre_found = 1; pre_val = val[i]; }

    /* the operation */
    int knd = vf_range(0, 2);          /* key kind: 0 number, 1 nil, 2 NaN */
    double kd = vf_f64();
    Janet k = knd == 1 ? janet_wrap_nil() : janet_wrap_number(kd);
    if (knd == 0) { VF_ASSUME(kd == kd); dom_add(kd); }
    if (knd == 2) VF_ASSUME(kd != kd);
    int k_in = 0;
    for (int i = 0; i < VF_CAP; i++) if (knd == 0 && shape[i] == 'L' && key[i] == kd) k_in = 1;
    int exp_found = pre_found; double exp_val = pre_val; int32_t exp_count = live;
#if VF_OP == 0
    int vnil = vf_bool();
    double vd = vf_f64();
    Janet v = vnil ? janet_wrap_nil() : janet_wrap_number(vd);
    janet_table_put(&t, k, v);
    if (knd == 0) {
        if (vnil) { if (q == kd) exp_found = 0; exp_count = live - k_in; }
        else { if (q == kd) { exp_found = 1; exp_val = vd; } exp_count = live + (k_in ? 0 : 1); }
    }
#else
    VF_ASSUME(knd == 0);   /* remove is only reached with number keys here (put filters nil and NaN before delegating) */
    Janet removed = janet_table_remove(&t, k);
    if (knd == 0) { if (q == kd) exp_found = 0; exp_count = live - k_in; }
    VF_ASSERT(janet_checktype(removed, JANET_NIL) == !(knd == 0 && k_in), "remove returned a value for an absent key or nil for a present one");
#endif
    VF_ASSERT(t.count == exp_count, "length after the operation differs from the finite-map model");
#ifdef VF_CHECK_INV
    check_invariant(&t);
#else
    Janet got = janet_table_rawget(&t, janet_wrap_number(q));
    if (exp_found) {
        VF_ASSERT(janet_checktype(got, JANET_NUMBER), "lookup lost a key that the finite-map model contains");
        union { double d; uint64_t u; } a, b; a.d = janet_unwrap_number(got); b.d = exp_val;
        VF_ASSERT(a.u == b.u || (a.d != a.d && b.d != b.d), "lookup returned a different value than the finite-map model");
    } else {
        VF_ASSERT(janet_checktype(got, JANET_NIL), "lookup found a key that the finite-map model does not contain");
    }
#endif
    VF_WITNESS("table step end");
}
