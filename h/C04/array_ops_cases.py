def cases(tier, hdr, path):
    names = {1: "push", 2: "pop", 3: "insert", 4: "remove", 5: "slice", 6: "fill", 7: "concat_self", 8: "trim", 9: "setcount", 10: "ensure", 11: "clear"}
    out = [{"name": "range_decode", "D": ["-DVF_OP=100"]}]
    for op, nm in names.items():
        for cap in (0, 1, 2, 3, 4):
            for n in range(cap + 1):
                t = "quick" if cap in (0, 2, 3) else "thorough"
                if op == 4 and cap == 0:
                    continue
                extras = [0, 1, 2] if op == 1 else ([1, 2] if op == 3 else [0])
                for ex in extras:
                    out.append({"name": "%s_cap%d_n%d_x%d" % (nm, cap, n, ex), "D": ["-DVF_OP=%d" % op, "-DVF_CAPC=%d" % cap, "-DVF_N=%d" % n, "-DVF_EXTRA=%d" % ex], "tier": t})
    return out
