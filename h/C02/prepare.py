"""C02: context-independence + semantics oracle for a template family, compiled by the real compiler of the current tree (E9)."""
import os, json

# (name, janet expression over a b c, C reference expression over doubles a b c (or None), symbolic branches)
TEMPLATES = [
    ("arith", "(+ (* a b) c)", "a * b + c"),
    ("nested_arith", "(- (/ a (+ b 1)) (* c c))", "a / (b + 1) - c * c"),
    ("if_lt", "(if (< a b) (+ a c) (- b c))", "(a < b) ? a + c : b - c"),
    ("var_set", "(do (var x a) (set x (+ x b)) (* x c))", "(a + b) * c"),
    ("let_chain", "(let [x (+ a b) y (* x c)] (- y x))", "((a + b) * c) - (a + b)"),
    ("for_sum", "(do (var s 0) (for i 0 3 (set s (+ s (* a i)))) s)", "((0 + a * 0) + a * 1) + a * 2"),
    ("while_break", "(do (var i 0) (var s a) (while (< i 5) (++ i) (set s (+ s b)) (if (= i 2) (break))) s)", "(a + b) + b"),
    ("destructure", "(do (def [x y] [a b]) (- x y))", "a - b"),
    ("and_or", "(+ (and a b) (or c a))", "b + c"),
    ("when_cond", "(cond (< a 0) (- a) (< b 0) b c)", "(a < 0) ? (a * -1) : ((b < 0) ? b : c)"),
    ("fn_call", "((fn [x y] (+ (* x 2) y)) a b)", "a * 2 + b"),
    ("opt_param", "((fn [x &opt y] (if y (+ x y) x)) a b)", "a + b"),
    ("variadic", "((fn [x & more] (+ x (length more))) a b c)", "a + 2"),
    ("tail_vs_nontail", "(do (defn- f [x] (+ x 1)) (def r (f a)) (f r))", "(a + 1) + 1"),
    ("dropped_value", "(do (+ a b) (* a c) (- b c))", "b - c"),
    ("closure_mut", "(do (var n a) (def inc (fn [] (set n (+ n b)))) (inc) (inc) n)", "(a + b) + b"),
    ("case_num", "(case 2 1 a 2 b c)", "b"),
    ("closure_deep_block", "(do (var f nil) (do (do (var x a) (set f (fn [] (set x (+ x b)) x)))) (def y c) (def z (* c 2)) (def w (+ c 1)) (f) (+ (+ (+ (f) y) z) w))", "((((a + b) + b) + c) + c * 2) + (c + 1)"),
    ("closure_if_let", "(do (var g nil) (if (< a b) (let [p (+ a 1)] (set g (fn [] (+ p c)))) (let [q (- a 1)] (set g (fn [] (- q c))))) (def u (* b 3)) (def v (* b 5)) (+ (+ (g) u) v))", "(a < b) ? (((a + 1) + c) + b * 3) + b * 5 : (((a - 1) - c) + b * 3) + b * 5"),
    ("quasi_len", "(length ~(1 ,a ,;[b c]))", "4"),
]
QUICK = ("arith", "if_lt", "var_set", "let_chain", "for_sum", "destructure", "dropped_value", "and_or", "case_num")
CONTEXTS = [
    ("top", "(fn [a b c] %s)"),
    ("nested", "(fn [a b c] (def r ((fn [] %s))) r)"),
    ("loop", "(fn [a b c] (var r nil) (for k 0 2 (set r %s)) r)"),
    ("nontail", "(fn [a b c] (def r %s) r)"),
    ("manylocals", None),
]

TEMPLATE = r'''/* VF
%(hdr)s
VF */
#include <janet.h>
#include "%(gen)s"
#include "vf_vm.h"
void harness(void) {
    vf_vm_init();
    vf_gen_init();
    Janet argv[3];
    double a = vf_num(), b = vf_num(), c = vf_num();
    argv[0] = janet_wrap_number(a); argv[1] = janet_wrap_number(b); argv[2] = janet_wrap_number(c);
    JanetSignal s0, s1;
    Janet r0 = vf_run(vf_funcs[0], 3, argv, &s0);          /* top-level context */
    VF_ASSERT(s0 == JANET_SIGNAL_OK, "the program raised an error on number inputs");
#if %(hasref)d
    { double want = %(ref)s; VF_ASSERT(vf_same(r0, janet_wrap_number(want)), "result differs from the meaning of the source program (reference expression)"); }
#endif
    vf_panic_is_violation = 1;
    Janet r1 = vf_run(vf_funcs[VF_CTX], 3, argv, &s1);
    VF_ASSERT(s1 == JANET_SIGNAL_OK, "the embedding context raised an error");
    VF_ASSERT(vf_same(r0, r1), "the same code gives a different result in another compilation context");
    VF_WITNESS("template end");
}
'''

# K5: error position attribution.  Multi-line programs whose (error "En") forms each sit on their own line; which one is
# raised depends on the inputs.  (name, body lines, C expression giving the index of the raised marker, 0 = none)
ERR_TEMPLATES = [
    ("two_sites", ['(do',
                   '  (if (< a b)',
                   '    (error "E1")',
                   '    (+ a 1))',
                   '  (if (< b c)',
                   '      (error "E2")',
                   '    (+ b 1)))'],
     "(a < b) ? 1 : ((b < c) ? 2 : 0)"),
    ("while_closure", ['(do',
                       '  (var lastf nil)',
                       '  (var i 0)',
                       '  (while (< i 1)',
                       '    (if (= i a)',
                       '       (error "E1"))',
                       '    (set lastf (fn [] i))',
                       '    (++ i))',
                       '  (if (< b c)',
                       '    (error "E2")',
                       '    i))'],
     "(a == 0.0) ? 1 : ((b < c) ? 2 : 0)"),
    ("plain_while", ['(do',
                     '  (var i 0)',
                     '  (while (< i 3)',
                     '    (if (= i a)',
                     '         (error "E1"))',
                     '    (++ i))',
                     '  (if (< b c) i',
                     '    (error "E2")))'],
     "(a == 0.0 || a == 1.0 || a == 2.0) ? 1 : ((b < c) ? 0 : 2)"),
]
ERR_CONTEXTS = [
    ("top", ["(fn [a b c]", "%s)"]),
    ("nontail", ["(fn [a b c] (def r", "%s", ") r)"]),
    ("loop", ["(fn [a b c]", "  (var r nil) (for kk 0 1 (set r", "%s", "  )) r)"]),
    ("nested", ["(fn [a b c] (def r ((fn []", "   %s", "   ))) r)"]),
    ("while_body", ["(fn [a b c] (var r nil) (var go true) (var keep nil)", " (while go (set go false) (set keep (fn [] go)) (set r", "%s", " )) r)"]),
]

ERR_TEMPLATE = r"""/* VF
%(hdr)s
VF */
#include <janet.h>
#include "%(gen)s"
#include "vf_vm.h"
static const uint32_t *vf_last_pc; static JanetFunction *vf_last_func;
void vf_dispatch_hook(const uint32_t *pc, JanetFunction *func) { vf_last_pc = pc; vf_last_func = func; }
static const int vf_exp_line[%(nctx)d][3] = %(lines)s;
static const int vf_exp_col[%(nctx)d][3] = %(cols)s;
void harness(void) {
    vf_vm_init();
    vf_gen_init();
    Janet argv[3];
    double a = vf_num(), b = vf_num(), c = vf_num();
    argv[0] = janet_wrap_number(a); argv[1] = janet_wrap_number(b); argv[2] = janet_wrap_number(c);
    int want = %(ref)s;                      /* which marker the evaluation rules say is raised (0: none) */
    JanetFiber *fiber = janet_fiber(vf_funcs[VF_CTX], 64, 3, argv);
    VF_ASSERT(fiber != NULL, "fiber");
    Janet out = janet_wrap_nil();
    JanetSignal sig = janet_continue(fiber, janet_wrap_nil(), &out);
    if (want == 0) {
        VF_ASSERT(sig == JANET_SIGNAL_OK, "an error was raised where the program raises none");
        VF_WITNESS("no error");
    } else {
        VF_ASSERT(sig == JANET_SIGNAL_ERROR, "the error the program must raise was not raised");
        VF_ASSERT(janet_checktype(out, JANET_STRING) && janet_string_length(janet_unwrap_string(out)) == 2 && janet_unwrap_string(out)[1] == '0' + want, "another error value than the form's");
        /* what janet_stacktrace / debug/stack report is the source mapping of the pc of the innermost frame; the frame is an
         * overlay on the value stack that CBMC cannot read back (E23), so the pc and function of the LAST DISPATCHED
         * instruction are taken from the interpreter's own locals through hook H3 (JOP_ERROR commits exactly that pc) */
        VF_ASSERT(vf_last_func != NULL && vf_last_func->def->sourcemap != NULL, "no source map");
        JanetFuncDef *def = vf_last_func->def;
        int32_t off = (int32_t)(vf_last_pc - def->bytecode);
        VF_ASSERT((*vf_last_pc & 0x7F) == JOP_ERROR, "the last dispatched instruction is not the error instruction");
        VF_ASSERT(off >= 0 && off < def->bytecode_length, "committed pc outside the function");
        VF_ASSERT(def->sourcemap[off].line == vf_exp_line[VF_CTX][want], "error attributed to another source line than the form that raised it");
        VF_ASSERT(def->sourcemap[off].column == vf_exp_col[VF_CTX][want], "error attributed to another source column than the form that raised it");
        VF_WITNESS("error position checked");
    }
}
"""

def prepare_err(tier, vf, gendir, hdir, harnesses, info):
    for name, body, ref in ERR_TEMPLATES:
        text_lines, starts = ["["], []
        for cname, ctx in ERR_CONTEXTS:
            for l in ctx:
                if "%s" in l:
                    ind = l.index("%s")
                    text_lines.append(l[:ind] + body[0])
                    for bl in body[1:-1]:
                        text_lines.append(" " * ind + bl)
                    text_lines.append(" " * ind + body[-1] + l[ind + 2:])
                else:
                    text_lines.append(l)
            starts.append(len(text_lines))
        text_lines.append("]")
        # positions of the markers per context (1-based line and column of the opening parenthesis)
        lines, cols, prev = [], [], 0
        for end in starts:
            ln, co = [0, 0, 0], [0, 0, 0]
            for k in (1, 2):
                for li in range(prev, end):
                    j = text_lines[li].find('(error "E%d")' % k)
                    if j >= 0:
                        ln[k], co[k] = li + 1, j + 1
            lines.append(ln); cols.append(co); prev = end
        src = "\n".join(text_lines) + "\n"
        gen = os.path.join(gendir, "err_" + name + ".h")
        try:
            vf.fdump(src, gen)
        except vf.BuildError as ex:
            info["skipped"].append("err_%s: %s" % (name, str(ex)[:300]))
            continue
        carr = lambda rows: "{" + ", ".join("{%d, %d, %d}" % tuple(r) for r in rows) + "}"
        hdr = {
            "defines": ["-DJANET_NO_NANBOX"],
            "units": ["vm.c", "fiber.c", "value.c", "wrap.c", "state.c", "util.c", "tuple.c", "array.c"],
            "unit_defines": {"vm.c": ["-DJANET_VERIF_DISPATCH_HOOK(op)=vf_dispatch_hook(pc, func)"]},
            "remove_bodies": ["safe_memcpy", "janet_binop_call", "janet_mcall", "janet_getmethod", "janet_sandbox", "janet_sandbox_assert", "janet_init", "janet_deinit"],
            "cbmc": ["--no-built-in-assertions", "--paths", "lifo"],
            "no_body_deny_re": "^(janet_(fiber|continue|call|in|get|put|next|length|binop|mcall|tuple|array|struct|table)|run_vm)",
            "backend": "cadical", "unwind": 24, "unwind_functions": {"run_vm": 400, "memcpy": 700, "memmove": 700, "janet_fiber_funcframe": 700, "janet_fiber_funcframe_tail": 700}, "timeout": 400, "mem_gb": 4,
            "cases": [{"name": ERR_CONTEXTS[i][0], "D": ["-DVF_CTX=%d" % i], "tier": "quick" if (ERR_CONTEXTS[i][0] in ("top", "nontail") and name != "while_closure") or (ERR_CONTEXTS[i][0] == "while_body" and name == "two_sites") or (ERR_CONTEXTS[i][0] == "top" and name == "while_closure") else "thorough", "timeout": 500, "timeout_thorough": 1500} for i in range(len(ERR_CONTEXTS))],
            "functions_encoded": ["vm.c: run_vm (JOP_ERROR, vm_commit), janet_continue*", "fiber.c: frames", "compile.c (source mapping: mapbuffer, janetc_pop_funcdef), specials.c (while: loop-to-function rewrite), emit.c, bytecode.c (no-op removal rewrites the map) of the current tree run concretely to produce each function with its source map (fdump)"],
            "asserted": ["K5: for ALL number inputs a b c, the program raises exactly the error its evaluation rules prescribe (or none), and the source line and column recorded for the pc of the error instruction in the innermost function - what janet_stacktrace and debug/stack print - are those of the (error ...) form that raised it, in every embedding context (top level, non-tail, for-loop body, nested closure, body of a while loop that is rewritten into a function because it creates a closure)"],
            "bounds": ["%d programs with two raise sites each (if/while/closure-creating while), %d contexts; inputs from the 20-entry table of boundary doubles" % (len(ERR_TEMPLATES), len(ERR_CONTEXTS))],
            "stubs": ["GC allocation = malloc, collection disabled", "_setjmp returns 0", "memcpy/memmove slot-wise", "the expected line/column of each form is computed by the generator from the program text"],
            "outside_claim": ["errors raised by C functions and type checks (leave through janet_panic)", "macro-generated forms whose position is the macro call's", "compile-time errors"],
        }
        hp = os.path.join(hdir, "err_%s.c" % name)
        open(hp, "w").write(ERR_TEMPLATE % {"hdr": json.dumps(hdr, indent=1), "gen": gen, "nctx": len(ERR_CONTEXTS), "lines": carr(lines), "cols": carr(cols), "ref": ref})
        harnesses.append(hp)
        info["templates"].append("err_" + name)

def prepare(tier, vf):
    gendir = os.path.join(vf.BUILD, "gen", vf.tree_hash(), "C02")
    hdir = os.path.join(gendir, "h")
    os.makedirs(hdir, exist_ok=True)
    for f in os.listdir(hdir):
        os.remove(os.path.join(hdir, f))
    harnesses, info = [], {"templates": [], "contexts": [c[0] for c in CONTEXTS], "skipped": []}
    many = " ".join("(def l%d %d)" % (i, i) for i in range(260))
    for name, expr, ref in TEMPLATES:
        fns = []
        for cname, ctx in CONTEXTS:
            if cname == "manylocals":
                fns.append("(fn [a b c] %s (def r %s) (+ l259 (- r 259)))" % (many, expr) if False else "(fn [a b c] %s %s)" % (many, expr))
            else:
                fns.append(ctx % expr)
        src = "[" + "\n ".join(fns) + "]\n"
        gen = os.path.join(gendir, name + ".h")
        try:
            vf.fdump(src, gen)
        except vf.BuildError as ex:
            info["skipped"].append("%s: %s" % (name, str(ex)[:300]))
            continue
        hdr = {
            "defines": ["-DJANET_NO_NANBOX"],
            "units": ["vm.c", "fiber.c", "value.c", "wrap.c", "state.c", "util.c", "tuple.c", "array.c"],
            "remove_bodies": ["safe_memcpy", "janet_binop_call", "janet_mcall", "janet_getmethod", "janet_sandbox", "janet_sandbox_assert", "janet_init", "janet_deinit"],
            "cbmc": ["--no-built-in-assertions", "--paths", "lifo"],
            "no_body_deny_re": "^(janet_(fiber|continue|call|in|get|put|next|length|binop|mcall|tuple|array|struct|table)|run_vm)",
            "backend": "cadical", "unwind": 24, "unwind_functions": {"run_vm": 400, "memcpy": 700, "memmove": 700, "janet_fiber_funcframe": 700, "janet_fiber_funcframe_tail": 700}, "timeout": 400, "mem_gb": 4,
            "cases": [dict({"name": CONTEXTS[i][0], "D": ["-DVF_CTX=%d" % i],
                            "tier": "quick" if (CONTEXTS[i][0] in ("nontail", "loop") and name in QUICK) else "thorough", "timeout": 400, "timeout_thorough": 1500},
                           **({"unwind": 300} if CONTEXTS[i][0] == "manylocals" else {})) for i in range(1, len(CONTEXTS))],
            "functions_encoded": ["vm.c: run_vm, janet_continue*", "fiber.c: frames, closures environments (janet_env_detach, janet_env_valid)", "compile.c, specials.c, emit.c, regalloc.c, cfuns.c, bytecode.c and the boot.janet macros of the current tree run concretely to produce each function (fdump)"],
            "asserted": ["K1: for every template and ALL number inputs a b c, the code compiled at top level, inside a nested closure (called in non-tail position: a tail call detaches the environment, and CBMC then loses track of the detached value array), inside a loop body, in non-tail position and with 260 live locals returns bit-identical results and raises in none",
                         "K2: the top-level result equals the C expression that states the template's meaning"],
            "bounds": ["%d templates (arithmetic, if/cond/case, var+set, let, for/while+break with concrete trip counts, destructuring, and/or, fn call, optional and variadic parameters, tail vs non-tail calls, closures over mutable variables, quasiquote); inputs: each of a b c ranges over a 20-entry table of boundary doubles chosen by the solver (8000 combinations, decided symbolically)" % len(TEMPLATES)],
            "stubs": ["GC allocation = malloc, collection disabled", "janet_panic family = failed obligation (no template may raise on numbers)", "_setjmp returns 0", "memcpy/memmove word-wise"],
            "outside_claim": ["programs outside the template family", "macro expansion and special-form compilation on symbolic programs", "compile-time errors", "non-number inputs"],
        }
        hp = os.path.join(hdir, "tpl_%s.c" % name)
        open(hp, "w").write(TEMPLATE % {"hdr": json.dumps(hdr, indent=1), "gen": gen, "hasref": 1 if ref else 0, "ref": ref or "0"})
        harnesses.append(hp)
        info["templates"].append(name + ": " + expr)
    prepare_err(tier, vf, gendir, hdir, harnesses, info)
    return {"harnesses": harnesses, "info": info}
