def cases(tier, hdr, path):
    out = []
    for op, on in ((0, "push_self"), (1, "pushstring_self"), (2, "pushat_self")):
        for cap in (4, 8):
            for n in range(cap + 1):
                q = "quick" if (cap == 4 or n in (0, 5, 8)) else "thorough"
                out.append({"name": "%s_cap%d_n%d" % (on, cap, n), "D": ["-DVF_OP=%d" % op, "-DVF_CAPC=%d" % cap, "-DVF_N=%d" % n, "-DVF_OD=0", "-DVF_OS=0"], "tier": q})
    for cap, n in ((4, 2), (4, 4), (8, 5)):
        for od in (0, 1, n, -1):
            for os in (0, 1, n, -1):
                out.append({"name": "blit_self_cap%d_n%d_d%d_s%d" % (cap, n, od, os), "D": ["-DVF_OP=3", "-DVF_CAPC=%d" % cap, "-DVF_N=%d" % n, "-DVF_OD=%d" % od, "-DVF_OS=%d" % os],
                            "tier": "quick" if cap == 4 else "thorough"})
    return out
