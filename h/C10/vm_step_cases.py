import os
import re
def cases(tier, hdr, path):
    src = open(os.path.join(os.environ.get("VF_REPO", "/repo"), "src/include/janet.h")).read()
    m = re.search(r"enum JanetOpCode \{(.*?)\};", src, re.S)
    ops = [x.strip().rstrip(",") for x in m.group(1).split("\n") if x.strip().startswith("JOP_") and "INSTRUCTION_COUNT" not in x]
    pushes = {"JOP_PUSH", "JOP_PUSH_2", "JOP_PUSH_3", "JOP_PUSH_ARRAY", "JOP_CALL", "JOP_TAILCALL", "JOP_RESUME", "JOP_SIGNAL", "JOP_PROPAGATE", "JOP_CANCEL", "JOP_MAKE_ARRAY", "JOP_MAKE_BUFFER",
              "JOP_MAKE_STRING", "JOP_MAKE_STRUCT", "JOP_MAKE_TABLE", "JOP_MAKE_TUPLE", "JOP_MAKE_BRACKET_TUPLE", "JOP_RETURN", "JOP_RETURN_NIL", "JOP_ERROR", "JOP_NEXT", "JOP_IN", "JOP_GET", "JOP_PUT", "JOP_GET_INDEX", "JOP_PUT_INDEX", "JOP_LENGTH", "JOP_CLOSURE"}
    out = []
    for i, op in enumerate(ops):
        for sc in (1, 2, 3):
            t = "quick" if sc in (1, 3) else "thorough"
            if op in ("JOP_BNOT", "JOP_CALL", "JOP_TAILCALL", "JOP_RESUME", "JOP_NEXT", "JOP_CANCEL", "JOP_PUSH_ARRAY"):
                t = "thorough"      # callee fan-out / no verdict within the quick cap on this machine
            out.append({"name": "%s_sc%d" % (op[4:].lower(), sc), "D": ["-DVF_OP=%d" % i, "-DVF_SC=%d" % sc, "-DVF_PUSHES=%d" % (1 if op in pushes else 0)], "tier": t, "timeout": 300, "timeout_thorough": 1800, "mem_gb": 6})
    return out
