def cases(tier, hdr, path):
    K = {"nil": 0, "bool": 1, "num": 2, "str": 3, "sym": 4, "tup": 5}
    out = []
    sc = ["nil", "bool", "num", "str", "sym"]
    for a in sc + ["tup"]:
        for b in sc + ["tup"]:
            eks = ["num", "str"] if "tup" in (a, b) else ["num"]
            for ek in eks:
                tl = [None] if "tup" not in (a, b) else [0, 1, 2]
                for L in tl:
                    q = "quick" if (a == b or (a, b) in (("num", "str"), ("str", "sym"), ("nil", "num"), ("tup", "str"))) else "thorough"
                    if L is not None:
                        q = "thorough"
                    out.append({"name": "pair_%s_%s_e%s%s" % (a, b, ek, "" if L is None else "_len%d" % L),
                                "D": ["-DVF_KX=%d" % K[a], "-DVF_KY=%d" % K[b], "-DVF_EK=%d" % K[ek]] + ([] if L is None else ["-DVF_TLEN=%d" % L]),
                                "tier": q, "timeout": 300 if L is None else 900})
    for a, b, c in (("num", "num", "num"), ("str", "str", "str"), ("bool", "bool", "bool"), ("num", "str", "bool"), ("sym", "sym", "str")):
        out.append({"name": "triple_%s_%s_%s" % (a, b, c), "D": ["-DVF_KX=%d" % K[a], "-DVF_KY=%d" % K[b], "-DVF_KZ=%d" % K[c], "-DVF_EK=2"]})
    for ek in ("num", "str"):
        out.append({"name": "triple_tup_e%s" % ek, "D": ["-DVF_KX=5", "-DVF_KY=5", "-DVF_KZ=5", "-DVF_EK=%d" % K[ek]], "tier": "thorough", "timeout": 1500})
    return out
