/* VF
{
 "defines": ["-DJANET_NO_NANBOX"],
 "units": ["wrap.c", "state.c", "util.c", "array.c", "buffer.c", "string.c", "value.c", "tuple.c", "vector.c"],
 "remove_bodies": ["janet_formatbv", "janet_formatb", "janet_formatc", "janet_description_b", "janet_to_string_b", "janet_pretty", "janet_in", "janet_get", "janet_put", "janet_next", "janet_compare", "janet_equals",
                   "janet_hash", "janet_mcall", "janet_call", "janet_getindex", "janet_putindex", "janet_lengthv", "janet_buffer_format"],
 "remove_bodies_after_link": ["unmarshal_one", "marshal_one"], "allow_no_body": ["unmarshal_one", "marshal_one"],
 "no_body_deny_re": "^(peg_unmarshal|size_padded|janet_unmarshal_|readint|read64|janet_v_|janet_abstract)",
 "unwind_is_property": true,
 "backend": "cadical", "timeout": 300, "mem_gb": 6,
 "cases": [{"name": "words1", "D": ["-DNW=1"], "unwind": 4}, {"name": "words2", "D": ["-DNW=2"], "unwind": 5}, {"name": "words3", "D": ["-DNW=3"], "unwind": 6}, {"name": "words4", "D": ["-DNW=4"], "unwind": 7, "tier": "thorough", "timeout_thorough": 1500, "mem_gb": 24},
           {"name": "words6", "D": ["-DNW=6"], "unwind": 9, "tier": "thorough", "timeout_thorough": 1500, "mem_gb": 30}],
 "functions_encoded": ["peg.c: peg_unmarshal (allocation layout, the PEG bytecode verifier), size_padded", "marsh.c: janet_unmarshal_size/int/abstract, readint, read64"],
 "asserted": ["the verifier's loops run at most NW+1 / NW times (the unwinding assertions are obligations here: a loop that can run longer has left the bytecode)", "U5: for a PEG image of NW bytecode words where EVERY word is an arbitrary 32-bit value, peg_unmarshal either raises or returns without reading or writing outside the image, the object it allocates and its scratch flags (CBMC dereference/bounds checks on exactly-sized objects)", "an accepted image leaves a PEG whose bytecode length is NW and whose words are the image's words"],
 "bounds": ["NW = 1..3 words (4 and 6 thorough), no constants; every word in the 5-byte integer encoding so that all 2^32 values are reachable"],
 "stubs": ["unmarshal_one (constants) has no body: the images declare no constants", "janet_abstract = one static object of exactly the size the layout computation must request for NW words (another size ends the path)", "janet_panic family = end of path", "janet_calloc/janet_free = CBMC's heap model"],
 "outside_claim": ["declared lengths other than NW (the length word is fixed), constants, running the matcher on an accepted arbitrary PEG"]
}
VF */
#include "features.h"
#include "vf_stubs.h"
#include "state.h"
#include "gc.h"
void *janet_gcalloc(enum JanetMemoryType type, size_t size) {
    JanetGCObject *p = malloc(size);
#ifndef VF_REPLAY
    __CPROVER_assume(p != 0);
#endif
    p->flags = type; p->data.next = NULL;
    return p;
}
void janet_gcpressure(size_t s) { (void) s; }
void *janet_srealloc(void *p, size_t n) { void *q = realloc(p, n); VF_ASSUME(q != NULL); return q; }
void *janet_smalloc(size_t n) { void *q = malloc(n ? n : 1); VF_ASSUME(q != NULL); return q; }
void janet_sfree(void *p) { free(p); }
#include "peg.c"
#include "marsh.c"

/* the PEG copy: exactly the bytes peg_unmarshal must ask for (JanetPeg + NW words, rounded up to a Janet boundary) */
#define VF_COPYSZ ((sizeof(JanetPeg) + sizeof(uint32_t) * NW + sizeof(Janet) - 1) / sizeof(Janet) * sizeof(Janet))
static int vf_copy_used;
void *janet_abstract(const JanetAbstractType *atype, size_t size) {
    VF_ASSERT(!vf_copy_used, "second abstract allocation");
    vf_copy_used = 1;
    if (size != VF_COPYSZ) VF_CUT();
    JanetAbstractHead *h = malloc(sizeof(JanetAbstractHead) + VF_COPYSZ);
    VF_ASSUME(h != NULL);
    h->gc.flags = 11; h->gc.data.next = NULL; h->type = atype; h->size = size;
    return (void *) &h->data;
}

void harness(void) {
    janet_vm.traversal = NULL; janet_vm.traversal_base = NULL; janet_vm.traversal_top = NULL;
    /* image of the abstract's payload: bytecode length, constant count, then NW words of 5 bytes each */
    uint8_t *img = malloc(2 + 5 * NW);
    VF_ASSUME(img != NULL);
    uint32_t w[NW];
    img[0] = NW; img[1] = 0;
    for (int i = 0; i < NW; i++) {
        w[i] = vf_u32();
        img[2 + 5 * i] = LB_INTEGER;
        img[3 + 5 * i] = (uint8_t)(w[i] >> 24); img[4 + 5 * i] = (uint8_t)(w[i] >> 16); img[5 + 5 * i] = (uint8_t)(w[i] >> 8); img[6 + 5 * i] = (uint8_t) w[i];
    }
    UnmarshalState ust; memset(&ust, 0, sizeof(ust));
    ust.start = img; ust.end = img + 2 + 5 * NW;
    JanetMarshalContext uc = {NULL, &ust, 0, img, &janet_peg_type};
    VF_WITNESS("image built");
    JanetPeg *peg = (JanetPeg *) peg_unmarshal(&uc);
#if NW >= 2
    VF_WITNESS("image accepted");     /* every instruction has at least one operand word: no 1-word PEG is valid */
#endif
    VF_ASSERT(peg->bytecode_len == NW && peg->num_constants == 0 && peg->bytecode != NULL, "accepted PEG has the wrong shape");
    for (int i = 0; i < NW; i++) VF_ASSERT(peg->bytecode[i] == w[i], "accepted PEG holds a different word than the image");
}
