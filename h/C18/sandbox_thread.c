/* VF
{
 "defines": ["-DJANET_NO_NANBOX", "-DSB_UNIT_ev"],
 "units": ["vm.c", "state.c", "wrap.c", "util.c"],
 "remove_bodies": ["run_vm", "janet_continue", "janet_continue_signal", "janet_call", "janet_pcall", "janet_mcall", "janet_init", "janet_deinit", "janet_try_init", "janet_restore"],
 "cbmc": ["--no-standard-checks", "--no-built-in-assertions"],
 "cbmc_remove": ["--signed-overflow-check", "--div-by-zero-check", "--undefined-shift-check"],
 "no_body_deny_re": "^_*(open|creat|fopen|unlink|remove|rename|mkdir|rmdir|fork|exec|posix_spawn|system|popen|getenv|setenv|dlopen|connect|bind|listen|janet_sandbox)",
 "unwind": 8,
 "unwindset": ["sb_abstract.0:66"],
 "timeout": 300,
 "cases": [{"name": "ev_thread_inherits"}, {"name": "sandbox_monotone", "D": ["-DVF_B2"]}],
 "functions_encoded": ["ev.c: cfun_ev_thread, janet_ev_threaded_call, janet_ev_threaded_await, janet_thread_body, janet_go_thread_subr", "vm.c: janet_sandbox, janet_sandbox_assert"],
 "asserted": ["B3: for an arbitrary parent flag word and arbitrary ev/thread flags (:n :a :c :t, supervisor or not), the new thread's VM has exactly the parent's sandbox flags installed before it unmarshals or runs anything",
              "B2: janet_sandbox(arg) from any state: new flags are a superset of old and of arg; once the sandbox capability itself is disabled the call raises and the flags stay as they were"],
 "bounds": ["one ev/thread call, argc 1..4; thread start = pthread_create stub that runs the thread body synchronously (no real concurrency)"],
 "stubs": ["pthread_create runs the body inline", "janet_init models only the documented reset of sandbox_flags to 0 (vm.c)", "janet_marshal / janet_unmarshal / buffers inert; janet_unmarshal is the observation point", "_setjmp returns 0"],
 "outside_claim": ["other ways to start threads from C embedding code", "that no other statement writes sandbox_flags is a syntactic scan reported by the driver, not a solver fact"]
}
VF */
#include "sb_stubs.h"
#include <pthread.h>

static uint32_t vf_parent_flags;
static int vf_thread_started, vf_observed;

int janet_init(void) { janet_vm.sandbox_flags = 0; return 0; }
int janet_marshal_dummy;
void janet_marshal(JanetBuffer *buf, Janet x, JanetTable *rreg, int flags) { (void) buf; (void) x; (void) rreg; (void) flags; }
Janet janet_unmarshal(const uint8_t *bytes, size_t len, int flags, JanetTable *reg, const uint8_t **next) {
    (void) bytes; (void) len; (void) flags; (void) reg; (void) next;
    /* first thing the new thread does with data from the parent */
    VF_ASSERT(janet_vm.sandbox_flags == vf_parent_flags, "new thread handles parent data before the parent's sandbox flags are installed");
    vf_observed = 1;
    VF_WITNESS("thread body reached unmarshal");
    VF_CUT();
    return janet_wrap_nil();
}
void janet_buffer_init_stub(void) {}
JanetBuffer *janet_buffer_init(JanetBuffer *b, int32_t c) { (void) c; b->data = NULL; b->count = 0; b->capacity = 0; return b; }
void janet_buffer_deinit(JanetBuffer *b) { (void) b; }

#include "ev.c"

int pthread_create(pthread_t *t, const pthread_attr_t *a, void *(*fn)(void *), void *arg) {
    (void) t; (void) a;
    vf_thread_started = 1;
    fn(arg);   /* run the thread body right here: same address space model, fresh VM via janet_init */
    return 0;
}

static JanetFiber vf_root;

void harness(void) {
#ifdef VF_B2
    uint32_t old = vf_u32(), arg = vf_u32();
    janet_vm.sandbox_flags = old;
    janet_sandbox(arg);
    VF_ASSERT(!(old & JANET_SANDBOX_SANDBOX), "janet_sandbox returned although the sandbox capability was already disabled");
    VF_ASSERT((janet_vm.sandbox_flags & old) == old, "a disabled capability was re-enabled");
    VF_ASSERT((janet_vm.sandbox_flags & arg) == arg, "a requested capability was not disabled");
    VF_WITNESS("sandbox monotone");
#else
    vf_parent_flags = vf_u32();
    janet_vm.sandbox_flags = vf_parent_flags;
    janet_vm.root_fiber = &vf_root;
    vf_root.supervisor_channel = vf_bool() ? (void *) &vf_root : NULL;
    int32_t argc = vf_range(1, 4);
    Janet argv[4];
    argv[0].type = JANET_FUNCTION; argv[0].as.pointer = NULL;
    for (int i = 1; i < 4; i++) argv[i] = janet_wrap_nil();
    VF_WITNESS("ev/thread entered");
    (void) cfun_ev_thread(argc, argv);
    VF_ASSERT(vf_thread_started, "ev/thread returned without starting a thread");
#endif
}
