#!/bin/sh
# tools/mutant_wt.sh <patch> <PID> [vf.py args...] : run a check against a scratch worktree of /repo with the patch applied (does not touch /repo)
P=$1; ID=$2; shift 2
W=/tmp/wt/mw_$$
git -C /repo worktree add --detach $W HEAD >/dev/null 2>&1
( cd $W && git apply -C1 "$P" ) || { echo "patch does not apply"; git -C /repo worktree remove --force $W; exit 9; }
VF_REPO=$W VF_EVIDENCE_DIR=/tmp/wt/mw_ev VF_REPLAY_DIR=/tmp/wt/mw_replays python3 /verif/vf.py check $ID "$@" 2>&1 | grep -v "\] ok" | tail -${TAILN:-12}
git -C /repo worktree remove --force $W
