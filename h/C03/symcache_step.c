/* VF
{
 "defines": ["-DJANET_NO_NANBOX"],
 "units": ["wrap.c", "state.c", "string.c", "util.c"],
 "backend": "cadical",
 "unwind": 18,
 "timeout": 300,
 "no_body_deny_re": "^(janet_symbol|janet_symcache|janet_cache_resize|janet_string_equalconst)",
 "cases_py": "symcache_step_cases.py",
 "functions_encoded": ["symcache.c: janet_symbol, janet_symcache_findmem, janet_symcache_put, janet_symbol_deinit (janet_cache_resize when the load threshold is hit)", "string.c: janet_string_equalconst"],
 "asserted": ["V4 (inductive step): from any symbol-cache state satisfying the invariant (every live symbol reachable from its home slot without crossing an empty slot, no two live symbols with equal bytes, live counter exact, tombstone counter an upper bound), interning bytes that equal a live symbol returns THAT symbol (same pointer), interning new bytes adds exactly one symbol, removing a symbol makes it unfindable; afterwards the invariant holds again — so symbols/keywords with the same bytes are always identical"],
 "bounds": ["capacity 8; occupancy enumerated over the 4 slots around the wrap boundary (6,7,0,1) with <= 3 non-empty slots; home slot of every symbol and of the looked-up bytes concrete per case (all reachability-consistent choices within the cluster); symbol bytes (1 byte each) symbolic"],
 "stubs": ["janet_string_calchash as called from symcache.c = arbitrary function of the bytes with the case's home slots (hash abstraction, see E19)", "janet_gcalloc = malloc", "janet_panic family = end of path"],
 "outside_claim": ["cache resize beyond one doubling", "gensym", "longer symbols (the hash/equality of bytes is C03 value_laws)"]
}
VF */
#include "vf_stubs.h"
#include "state.h"
#include "gc.h"
void *janet_gcalloc(enum JanetMemoryType type, size_t size) {
    JanetGCObject *p = malloc(size);
#ifndef VF_REPLAY
    __CPROVER_assume(p != 0);
#endif
    p->flags = type; p->data.next = NULL;
    return p;
}
#ifndef VF_SHAPE
#error case macros missing
#endif
#define CAP 8
static const char shape[] = VF_SHAPE;          /* 8 chars: E empty, T tombstone, 0..2 = live symbol index */
static const int homes[3] = VF_HOMES;          /* home slot of live symbol i */
static struct { JanetStringHead head; uint8_t data[2]; } sym[3];
static int nlive;
static uint8_t qbyte;                          /* the looked-up byte string (length 1) */

/* hash abstraction: equal bytes -> the stored symbol's hash; otherwise the case's query home */
int32_t vf_calchash(const uint8_t *str, int32_t len) {
    (void) len;
    for (int i = 0; i < 3; i++) if (i < nlive && str[0] == sym[i].data[0]) return homes[i];
    return VF_QHOME;
}
#define janet_string_calchash vf_calchash
#include "symcache.c"
#undef janet_string_calchash

static void check_invariant(void) {
    uint32_t cap = janet_vm.cache_capacity;
    VF_ASSERT(cap == 8 || cap == 16, "capacity");
    uint32_t live = 0, dead = 0;
    for (uint32_t i = 0; i < 16; i++) if (i < cap) {
        const uint8_t *e = janet_vm.cache[i];
        if (e == NULL) continue;
        if (e == JANET_SYMCACHE_DELETED) { dead++; continue; }
        live++;
        uint32_t h = (uint32_t) janet_string_hash(e) & (cap - 1);
        for (uint32_t j = h; j != i; j = (j + 1) & (cap - 1))
            VF_ASSERT(janet_vm.cache[j] != NULL, "a live symbol is unreachable: an empty slot lies between its home and its position (it would be interned a second time)");
        for (uint32_t j = 0; j < i; j++) {
            const uint8_t *o = janet_vm.cache[j];
            if (o != NULL && o != JANET_SYMCACHE_DELETED) VF_ASSERT(o[0] != e[0], "two live symbols with the same bytes");
        }
    }
    VF_ASSERT(janet_vm.cache_count == live, "cache_count differs from the number of live symbols");
    VF_ASSERT(janet_vm.cache_deleted >= dead, "cache_deleted undercounts the tombstones (the load check would let the cache fill up)");   /* reusing a tombstone does not decrement the counter: it is an upper bound, reset by resize */
}

void harness(void) {
    const uint8_t **cache = malloc(sizeof(const uint8_t *) * CAP);
#ifndef VF_REPLAY
    __CPROVER_assume(cache != 0);
#endif
    uint32_t live = 0, dead = 0;
    for (int i = 0; i < 3; i++) { sym[i].head.length = 1; sym[i].head.hash = homes[i]; sym[i].data[0] = vf_u8(); sym[i].data[1] = 0; sym[i].head.gc.flags = JANET_MEMORY_SYMBOL; }
    for (int i = 0; i < CAP; i++) {
        if (shape[i] == 'E') cache[i] = NULL;
        else if (shape[i] == 'T') { cache[i] = JANET_SYMCACHE_DELETED; dead++; }
        else { cache[i] = sym[shape[i] - '0'].data; live++; }
    }
    nlive = (int) live;
    for (int i = 0; i < nlive; i++) for (int j = 0; j < i; j++) VF_ASSUME(sym[i].data[0] != sym[j].data[0]);
    janet_vm.cache = cache; janet_vm.cache_capacity = CAP; janet_vm.cache_count = live; janet_vm.cache_deleted = dead;
    qbyte = vf_u8();
    int hit = -1;
    for (int i = 0; i < nlive; i++) if (sym[i].data[0] == qbyte) hit = i;
    VF_WITNESS("symcache op");
#if VF_OP == 0
    const uint8_t *r = janet_symbol(&qbyte, 1);
    if (hit >= 0) {
        VF_ASSERT(r == sym[hit].data, "interning bytes equal to a live symbol returned a different object (two symbols with the same bytes)");
        VF_ASSERT(janet_vm.cache_count == live, "count changed by a lookup hit");
    } else {
        VF_ASSERT(r != NULL && r[0] == qbyte && janet_string_length(r) == 1, "new symbol contents");
        for (int i = 0; i < nlive; i++) VF_ASSERT(r != sym[i].data, "a new symbol aliases an existing one");
        VF_ASSERT(janet_vm.cache_count == live + 1, "interning new bytes did not add exactly one symbol");
    }
#else
    VF_ASSUME(hit >= 0);
    janet_symbol_deinit(sym[hit].data);
    VF_ASSERT(janet_vm.cache_count == live - 1, "removing a symbol did not decrement the count");
    for (uint32_t i = 0; i < CAP; i++) VF_ASSERT(janet_vm.cache[i] != sym[hit].data, "a removed symbol is still in the cache");
#endif
    check_invariant();
    VF_WITNESS("symcache op end");
}
