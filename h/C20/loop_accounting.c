/* VF
{
 "defines": ["-DJANET_NO_NANBOX"],
 "units": ["wrap.c", "state.c", "fiber.c"],
 "remove_bodies": ["janet_fiber_funcframe", "janet_fiber_funcframe_tail", "janet_fiber_cframe", "janet_fiber_push", "janet_fiber_pushn", "janet_fiber_push2", "janet_fiber_push3", "janet_fiber_setcapacity", "janet_fiber_popframe", "janet_fiber", "janet_fiber_reset", "janet_env_detach", "janet_env_valid", "janet_env_maybe_detach"],
 "cbmc": ["--no-built-in-assertions"],
 "remove_bodies_after_link": ["janet_timeout_cb", "janet_thread_chan_cb", "janet_ev_default_threaded_callback"],
 "no_body_deny_re": "^(janet_ev_handle_selfpipe|janet_loop_done|janet_stream_close|janet_proc_wait_cb|janet_schedule|janet_cancel|read$|close$)",
 "backend": "cadical",
 "unwind": 45,
 "timeout": 400,
 "cases": [{"name": "selfpipe_drain_0", "D": ["-DVF_CASE=1", "-DVF_NEV=0"]}, {"name": "selfpipe_drain_1", "D": ["-DVF_CASE=1", "-DVF_NEV=1"]}, {"name": "selfpipe_drain_5", "D": ["-DVF_CASE=1", "-DVF_NEV=5"]}, {"name": "selfpipe_drain_33", "D": ["-DVF_CASE=1", "-DVF_NEV=33"]}, {"name": "selfpipe_drain_40", "D": ["-DVF_CASE=1", "-DVF_NEV=40"], "tier": "thorough"}, {"name": "loop_done", "D": ["-DVF_CASE=2"]}, {"name": "stream_close_once", "D": ["-DVF_CASE=3"]}, {"name": "proc_wait_unroot", "D": ["-DVF_CASE=4"]}],
 "functions_encoded": ["ev.c: janet_ev_handle_selfpipe, janet_loop_done, janet_stream_close, janet_stream_close_impl, janet_stream_gc", "os.c: janet_proc_wait_cb"],
 "asserted": ["D2 (posted events): one wake-up of the self-pipe handler delivers EVERY event queued in the pipe (the pipe is registered edge-triggered: what is left behind is never seen again) — the handler returns only after read reported an empty pipe; each delivered callback is balanced by one reference-count decrement",
              "D1: the loop is done exactly when the run queue is empty, no timer is pending and no listener/reference is outstanding",
              "D3: a stream's descriptor is closed exactly once: by close, and not again by the finaliser; not-closeable streams are never closed",
              "D2 (subprocess wait): the completion callback un-roots the process object and the waiting fiber exactly once whether or not the waiter is still waiting (cancelled waits must not pin them)"],
 "bounds": ["0, 1, 5, 33 (and 40) queued events (count concrete per case), stream flags symbolic; waiter liveness symbolic"],
 "stubs": ["read = pops queued events, then reports EAGAIN", "close counts calls", "janet_gcroot/unroot count calls", "atomic counter ops modelled as plain increments"],
 "outside_claim": ["whole-program termination and growth of descriptors/children/heap blocks over repeated cycles (needs the kernel, threads and long concrete runs: not encodable)", "timer heap, epoll registration"]
}
VF */
#include "features.h"
#include "vf_stubs.h"
#include "state.h"
#include "fiber.h"
#include <errno.h>
#include <unistd.h>
static Janet vf_tuple_store[4];
Janet *janet_tuple_begin(int32_t length) { (void) length; return vf_tuple_store; }
const Janet *janet_tuple_end(Janet *tuple) { return tuple; }
const uint8_t *janet_csymbol(const char *s) { (void) s; return (const uint8_t *) "k"; }
static struct { JanetStringHead head; uint8_t data[8]; } vf_errstr;
const uint8_t *janet_cstring(const char *s) { (void) s; return vf_errstr.data; }
const uint8_t *janet_formatc(const char *format, ...) { (void) format; return vf_errstr.data; }
void janet_table_put(JanetTable *t, Janet k, Janet v) { (void) t; (void) k; (void) v; }
static int vf_roots, vf_unroot_proc, vf_unroot_fiber; static void *vf_proc_ptr, *vf_fiber_ptr;
void janet_gcroot(Janet x) { (void) x; vf_roots++; }
int janet_gcunroot(Janet x) { if (x.as.pointer == vf_proc_ptr) vf_unroot_proc++; if (x.as.pointer == vf_fiber_ptr) vf_unroot_fiber++; return 1; }
/* plain-counter model of the atomic helpers (util.c) */
JanetAtomicInt janet_atomic_inc(JanetAtomicInt volatile *x) { return ++(*x); }
JanetAtomicInt janet_atomic_dec(JanetAtomicInt volatile *x) { return --(*x); }
JanetAtomicInt janet_atomic_load(JanetAtomicInt volatile *x) { return *x; }

static int vf_closes;
int close(int fd) { (void) fd; vf_closes++; return 0; }
#if VF_CASE == 4
static int vf_sched;
void janet_schedule(JanetFiber *f, Janet v) { (void) f; (void) v; vf_sched++; }
void janet_cancel(JanetFiber *f, Janet v) { (void) f; (void) v; vf_sched++; }
#include "os.c"
#else
static int vf_avail, vf_delivered, vf_empty_seen, vf_eintr = 1;
#include "ev.c"
static void vf_event_cb(JanetEVGenericMessage msg) { (void) msg; vf_delivered++; }
ssize_t read(int fd, void *buf, size_t n) {
    (void) fd;
    if (vf_avail == 0) { vf_empty_seen = 1; errno = EAGAIN; return -1; }
    vf_avail--;
    JanetSelfPipeEvent *e = buf;
    VF_ASSERT(n == sizeof(JanetSelfPipeEvent), "read size");
    e->cb = vf_event_cb;
    return (ssize_t) sizeof(JanetSelfPipeEvent);
}
#endif

void harness(void) {
#if VF_CASE == 1
    int n = VF_NEV;    /* number of queued events: concrete per case (0, 1, 5, 33, 40) */
    vf_avail = n;
    janet_vm.listener_count = 100;
    VF_WITNESS("selfpipe wake-up");
    janet_ev_handle_selfpipe();
    VF_ASSERT(vf_avail == 0 && vf_empty_seen, "the self-pipe handler returned while posted events were still queued (edge-triggered pipe: they are never delivered)");
    VF_ASSERT(vf_delivered == n, "an event was dropped or delivered twice");
    VF_ASSERT(janet_vm.listener_count == 100 - n, "reference count not decremented once per delivered event");
#elif VF_CASE == 2
    janet_vm.spawn.head = vf_range(0, 3); janet_vm.spawn.tail = vf_range(0, 3); janet_vm.spawn.capacity = 4;
    janet_vm.tq_count = (size_t) vf_range(0, 2);
    janet_vm.listener_count = vf_range(0, 2);
    int busy = (janet_vm.spawn.head != janet_vm.spawn.tail) || janet_vm.tq_count != 0 || janet_vm.listener_count != 0;
    VF_WITNESS("loop done asked");
    VF_ASSERT(janet_loop_done() == !busy, "loop_done disagrees with 'no task, no timer, no outstanding listener'");
#elif VF_CASE == 3
    static struct { JanetAbstractHead head; JanetStream s; } sbox;
    JanetStream *st = &sbox.s; memset(st, 0, sizeof(*st));
    st->handle = 5; st->flags = vf_bool() ? JANET_STREAM_NOT_CLOSEABLE : 0;
    int closeable = !(st->flags & JANET_STREAM_NOT_CLOSEABLE);
    VF_WITNESS("stream close");
    janet_stream_close(st);
    VF_ASSERT(vf_closes == (closeable ? 1 : 0), "close did not close the descriptor exactly once (or closed a not-closeable one)");
    VF_ASSERT(st->flags & JANET_STREAM_CLOSED, "closed flag");
    janet_stream_gc(st, sizeof(*st));
    janet_stream_close(st);
    VF_ASSERT(vf_closes == (closeable ? 1 : 0), "descriptor closed again by the finaliser or a second close");
#else
    static struct { JanetAbstractHead head; JanetProc p; } pbox; static JanetFiber fb;
    memset(&pbox, 0, sizeof(pbox)); memset(&fb, 0, sizeof(fb));
    fb.flags = (vf_bool() ? JANET_STATUS_PENDING : JANET_STATUS_DEAD) << JANET_FIBER_STATUS_OFFSET;
    fb.sched_id = vf_u32();
    pbox.p.flags = JANET_PROC_WAITING | (vf_bool() ? JANET_PROC_ERROR_NONZERO : 0);
    vf_proc_ptr = &pbox.p; vf_fiber_ptr = &fb;
    JanetEVGenericMessage m; memset(&m, 0, sizeof(m));
    m.argp = &pbox.p; m.fiber = &fb; m.tag = vf_range(0, 2); m.argi = (int32_t) vf_u32();
    VF_WITNESS("wait callback");
    janet_proc_wait_cb(m);
    VF_ASSERT(vf_unroot_proc == 1 && vf_unroot_fiber == 1, "the waited process object and the waiting fiber are not un-rooted exactly once (an abandoned wait pins them forever)");
    VF_ASSERT((pbox.p.flags & JANET_PROC_WAITED) && !(pbox.p.flags & JANET_PROC_WAITING), "proc flags");
    int live = janet_fiber_can_resume(&fb) && fb.sched_id == (uint32_t) m.argi;
    VF_ASSERT(vf_sched == live, "the waiter is resumed iff it is still waiting on this process");
#endif
    VF_WITNESS("accounting end");
}
