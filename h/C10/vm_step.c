/* VF
{
 "defines": ["-DJANET_NO_NANBOX"],
 "units": ["vm.c", "fiber.c", "bytecode.c", "value.c", "wrap.c", "state.c", "util.c", "tuple.c", "array.c", "struct.c", "table.c", "buffer.c", "string.c"],
 "unit_defines": {"vm.c": ["-DJANET_VERIF_DISPATCH_HOOK(op)=vf_dispatch_hook(&(op))"]},
 "remove_bodies": ["janet_binop_call", "janet_mcall", "janet_getmethod", "janet_sandbox", "janet_sandbox_assert", "janet_init", "janet_deinit", "janet_in", "janet_get", "janet_put", "janet_next", "janet_length", "janet_lengthv", "janet_getindex", "janet_putindex", "janet_compare", "janet_equals", "janet_hash", "call_nonfn", "janet_call", "janet_pcall", "janet_symbol", "janet_csymbol", "janet_string", "janet_struct_end", "janet_struct_put", "janet_table_put", "janet_buffer_push_bytes", "janet_buffer_push_u8", "janet_to_string", "janet_to_string_b"],
 "no_body_deny_re": "^(janet_fiber|janet_verify|run_vm|janet_continue|janet_check_can_resume|janet_env|janet_tuple_n|janet_array_n)",
 "cbmc": ["--no-undefined-shift-check", "--no-signed-overflow-check", "--no-div-by-zero-check"],
 "cbmc_remove": ["--signed-overflow-check", "--div-by-zero-check", "--undefined-shift-check"],
 "backend": "cadical",
 "unwind": 12,
 "unwind_functions": {"run_vm": 4, "harness": 34, "janet_verify": 5},
 "timeout": 300,
 "mem_gb": 4,
 "cases_py": "vm_step_cases.py",
 "functions_encoded": ["bytecode.c: janet_verify (as the assumption)", "vm.c: run_vm — one dispatch of the opcode under test (hook H3 pins the opcode on step 0)", "fiber.c: janet_fiber, janet_fiber_funcframe, janet_fiber_push*, janet_fiber_funcframe_tail, janet_fiber_popframe, janet_env_valid"],
 "asserted": ["U1: for every opcode and every 24-bit operand field, in a function accepted by janet_verify (slot count concrete per case, constants/defs/environments lengths <= 2), one interpreter step performs no out-of-object access (CBMC dereference and bounds checks on stack, constants, defs, environments and pc) and does not modify any fiber stack word outside the current frame's slots (sentinels), except for the push/call family whose effect on [stackstart, stacktop) is theirs to have"],
 "bounds": ["one instruction X = OP | 24 symbolic operand bits followed by two return-nil words; slotcount 1..3 (concrete per case); slots hold arbitrary numbers; callees that operate on non-number operands (janet_in/get/put/length/compare, method calls, nested continue) are body-less: they return an arbitrary value"],
 "stubs": ["GC allocation = malloc", "janet_panic family = end of path", "_setjmp returns 0", "generic value operations body-less (arbitrary result)"],
 "outside_claim": ["arithmetic UB that is not a memory access (blshift/brshift by a negative or >= 32 amount executes a C shift with that count; x86 masks it) — filed, not a memory error", "a jump to the instruction itself (infinite loop)", "sequences of instructions (each step starts from a verified function and a well-formed frame; composition is an argument)", "operands of container/fiber/function type", "slotcount above 3", "relocation of the stack by callees"]
}
VF */
#include <janet.h>
#include "features.h"
#include "vf_stubs.h"
#include "state.h"
#include "gc.h"
#include "fiber.h"
#include <setjmp.h>
static void *vf_last_env;      /* the environment the interpreter itself created for the running frame, if any */
void *janet_gcalloc(enum JanetMemoryType type, size_t size) {
    JanetGCObject *p = malloc(size);
    if (type == JANET_MEMORY_FUNCENV) vf_last_env = p;
#ifndef VF_REPLAY
    __CPROVER_assume(p != 0);
#endif
    p->flags = type; p->data.next = NULL;
    return p;
}
void janet_gcpressure(size_t s) { (void) s; }
void janet_collect(void) { }
void janet_fiber_did_resume(JanetFiber *fiber) { (void) fiber; }
#ifndef VF_REPLAY
int _setjmp(jmp_buf env) { (void) env; return 0; }
#endif

#ifndef VF_OP
#error case macros missing
#endif
/* H3: the dispatch hook pins the opcode on the first dispatch; control depends on a concrete counter only (E12) */
static int vf_step;
void vf_dispatch_hook(uint8_t *opcode) {
    if (vf_step == 0) {
        vf_step = 1;
        if (*opcode != VF_OP) VF_CUT();
        *opcode = VF_OP;
    } else {
        /* second dispatch: a jump or fall-through must land on one of the two following words (return-nil + breakpoint bit).
         * A jump back to the instruction itself (offset 0, accepted by the verifier) loops forever: that path is cut (outside the claim) */
        vf_step = 2;
        if (*opcode != (JOP_RETURN_NIL | 0x80)) VF_CUT();
        *opcode = JOP_RETURN_NIL | 0x80;
    }
}

static uint32_t bc[3];
static Janet consts[2];
static JanetFuncDef subdef, def;
static uint32_t subbc[1] = { JOP_RETURN_NIL };
static JanetFuncDef *subdefs[2] = { &subdef, &subdef };
static int32_t envidx[2] = { 0, 0 };
static int32_t subenvidx[2];      /* the nested definition's environment indices: ARBITRARY integers (an image or asm can hold any) */
static struct { JanetFunction f; JanetFuncEnv *envs[2]; } fn;
static JanetFuncEnv env0;
static Janet envvals[2];
#define SENTINEL 0x5A5A5A5A5A5A5A5AULL

void harness(void) {
    janet_vm.traversal = NULL; janet_vm.traversal_base = NULL; janet_vm.traversal_top = NULL;
    janet_vm.stackn = 0; janet_vm.fiber = NULL; janet_vm.root_fiber = NULL; janet_vm.signal_buf = NULL; janet_vm.return_reg = NULL;
    janet_vm.coerce_error = 0; janet_vm.gc_interval = 0x7FFFFFFF; janet_vm.next_collection = 0; janet_vm.gc_suspend = 1; janet_vm.auto_suspend = 0;
    uint32_t operands = vf_u32() & 0xFFFFFF00u;
    bc[0] = operands | VF_OP;
    bc[1] = JOP_RETURN_NIL; bc[2] = JOP_RETURN_NIL;
    subdef.bytecode = subbc; subdef.bytecode_length = 1; subdef.slotcount = 1; subdef.arity = 0; subdef.min_arity = 0; subdef.max_arity = 0;
    subenvidx[0] = (int32_t) vf_u32(); subenvidx[1] = (int32_t) vf_u32();
    subdef.environments = subenvidx; subdef.environments_length = vf_range(0, 2);
    def.bytecode = bc; def.bytecode_length = 3;
    def.slotcount = VF_SC; def.arity = 0; def.min_arity = 0; def.max_arity = 0; def.flags = 0;
    def.constants = consts; def.constants_length = vf_range(0, 2);
    def.defs = subdefs; def.defs_length = vf_range(0, 2);
    def.environments = envidx; def.environments_length = vf_range(0, 2);
    consts[0] = janet_wrap_number(vf_f64()); consts[1] = janet_wrap_number(vf_f64());
    VF_ASSUME(janet_verify(&def) == 0);
    /* breakpoint bit on the following words: the interpreter returns there (set AFTER verification, which looks at the low 7 bits only) */
    bc[1] |= 0x80; bc[2] |= 0x80;
    env0.offset = 0; env0.length = 2; env0.as.values = envvals;
    envvals[0] = janet_wrap_number(1); envvals[1] = janet_wrap_number(2);
    fn.f.def = &def; fn.envs[0] = &env0; fn.envs[1] = &env0;
    JanetFiber *fiber = janet_fiber(&fn.f, 32, 0, NULL);
    VF_ASSERT(fiber != NULL, "fiber");
    int32_t frame = fiber->frame, sc = VF_SC, cap = fiber->capacity;
    for (int i = 0; i < VF_SC; i++) fiber->data[frame + i] = janet_wrap_number(vf_f64());
    /* paint every stack word outside the frame header and the frame's slots */
    for (int32_t i = 0; i < 32; i++) if (i < cap && (i < frame - JANET_FRAME_SIZE || i >= frame + sc)) { fiber->data[i].as.u64 = SENTINEL; fiber->data[i].type = JANET_NIL; }
    Janet *data_before = fiber->data;
    int32_t top_before = fiber->stacktop, start_before = fiber->stackstart;
    VF_WITNESS("verified function about to run");
    Janet out;
    JanetSignal sig = janet_continue(fiber, janet_wrap_nil(), &out);
    VF_ASSERT(vf_step >= 1, "the opcode under test was never dispatched (vacuous run)");
    /* a closure built by this step may only capture environments that exist: those of the running function or the frame's own
     * (CBMC checks only the upper bound of an index into a flexible array member, so a negative index needs this obligation) */
    if (VF_OP == JOP_CLOSURE && sig == JANET_SIGNAL_DEBUG && fiber->data == data_before) {
        Janet made = fiber->data[frame + ((operands >> 8) & 0xFF)];
        if (janet_checktype(made, JANET_FUNCTION) && janet_unwrap_function(made)->def == &subdef) {
            JanetFunction *nf = janet_unwrap_function(made);
            for (int32_t i = 0; i < 2; i++) if (i < subdef.environments_length)
                VF_ASSERT(nf->envs[i] == &env0 || (vf_last_env != NULL && (void *) nf->envs[i] == vf_last_env), "the new closure captured something that is not an environment of the running function");
        }
    }
    /* frame-locality: words below the frame header never change; words above the slots change only by pushing */
    if (fiber->data == data_before) {
        for (int32_t i = 0; i < 32; i++) {
            if (i < frame - JANET_FRAME_SIZE) VF_ASSERT(fiber->data[i].as.u64 == SENTINEL, "a stack word below the current frame was modified");
#if !VF_PUSHES
            if (i >= frame + sc && i < cap) VF_ASSERT(fiber->data[i].as.u64 == SENTINEL, "a stack word above the frame's slots was modified by a non-push opcode");
#endif
        }
#if !VF_PUSHES
        if (janet_fiber_status(fiber) != JANET_STATUS_DEAD) VF_ASSERT(fiber->stacktop == top_before && fiber->stackstart == start_before, "stack pointers changed by a non-push opcode");
#endif
    }
}
