def cases(tier, hdr, path):
    out = []
    for f in (0, 3, 4, 6):
        for ds in (4, 5, 6, 7):
            ss = f + ds
            for dt in (-1, 0, 2):
                st = ss + dt
                valid = 1 if (f >= 4 and ds == 6 and dt >= 0) else 0
                out.append({"name": "f%d_s%d_t%d" % (f, ss, st), "D": ["-DVF_FRAME=%d" % f, "-DVF_SSTART=%d" % ss, "-DVF_STOP=%d" % st, "-DVF_VALID=%d" % valid]})
    return out
