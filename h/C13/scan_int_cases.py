DIG = "0123456789abcdefghijklmnopqrstuvwxyz"

def todigits(v, b):
    s = ""
    while v:
        s = DIG[v % b] + s
        v //= b
    return s or "0"

def cases(tier, hdr, path):
    out = []
    table = [("", 10, 1), ("0x", 16, 0), ("36r", 36, 0), ("7r", 7, 0), ("2r", 2, 0), ("8r", 8, 0), ("10r", 10, 0), ("3r", 3, 0)]
    for pre, base, plain in table:
        heads = [("none", "")]
        for nm, v in (("umax", 2**64 - 1), ("smax", 2**63 - 1)):
            d = todigits(v, base)
            heads.append((nm, d[:-3]))
        for hn, head in heads:
            ns = [1, 2, 3, 4] if hn == "none" else [3, 4]
            if hn == "none":
                ns = [2, 3, 4]     # a 1-byte text makes the scanner form str+2 (two past the end) before comparing: formal UB, filed, see DESIGN E7
            if tier == "quick" and hn == "none":
                ns = [2, 3, 4] if base == 10 else [3]
            for n in ns:
                for which, wn, sign in ((0, "u64", 0), (0, "u64", 1), (0, "u64", 2), (1, "s64", 0), (1, "s64", 1), (1, "s64", 2)):
                    if hn == "smax" and which == 0 and tier == "quick":
                        continue
                    if sign == 2 and not (base == 10 and hn == "none" and n == 3):
                        continue      # '+' handled like no sign; one family is enough
                    if sign == 1 and which == 0 and hn != "none":
                        continue      # negative unsigned text: rejected at the sign, boundary irrelevant
                    t = "quick" if (base in (10, 16, 36, 7) or n == 3) else "thorough"
                    out.append({"name": "%s_%s_%s_n%d_s%d" % (wn, pre or "dec", hn, n, sign), "tier": t,
                                "D": ["-DVF_PREFIX=\"%s\"" % pre, "-DVF_HEAD=\"%s\"" % head, "-DVF_BASE=%d" % base, "-DVF_PLAIN=%d" % plain,
                                      "-DVF_NDIG=%d" % n, "-DVF_WHICH=%d" % which, "-DVF_SIGN=%d" % sign],
                                "unwind": len(head) + n + 8, "cost": n})
    return out
