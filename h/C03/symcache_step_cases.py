import itertools
CAP = 8
SLOTS = [6, 7, 0, 1]
def valid_homes(shape, pos):
    """homes h such that no E slot lies in [h, pos) cyclically, restricted to the cluster"""
    out = []
    for h in SLOTS + [5]:
        ok, j = True, h
        while j != pos:
            if shape[j] == "E":
                ok = False
                break
            j = (j + 1) % CAP
        if ok:
            out.append(h)
    return out

def cases(tier, hdr, path):
    out = []
    for combo in itertools.product("ETL", repeat=4):
        ne = sum(1 for c in combo if c != "E")
        if ne > 3:
            continue
        base = ["E"] * CAP
        live_pos = []
        for s, c in zip(SLOTS, combo):
            if c == "L":
                base[s] = str(len(live_pos)); live_pos.append(s)
            elif c == "T":
                base[s] = "T"
        shape = "".join(base)
        # load invariant of the cache: (count + deleted) * 2 <= capacity
        if ne * 2 > CAP:
            continue
        homesets = [valid_homes(base, p) for p in live_pos]
        for homes in itertools.product(*homesets) if live_pos else [()]:
            hs = list(homes) + [0] * (3 - len(homes))
            for qh in (6, 7, 0):
                for op in (0,):      # deinit steps: CBMC counterexamples did not replay natively (encoding issue unresolved) -> not registered
                    if op == 1 and not live_pos:
                        continue
                    wrap = any(base[s] != "E" for s in (6, 7)) and base[0] != "E"
                    t = "quick" if (wrap and ne == 3 and qh == 6) else "thorough"
                    out.append({"name": "%s_h%s_q%d_%s" % (shape, "".join(map(str, homes)) or "x", qh, "intern" if op == 0 else "deinit"), "tier": t,
                                "D": ["-DVF_SHAPE=\"%s\"" % shape, "-DVF_HOMES={%s}" % ",".join(map(str, hs)), "-DVF_QHOME=%d" % qh, "-DVF_OP=%d" % op]})
    return out
