/* VF
{
 "defines": ["-DJANET_NO_NANBOX"],
 "units": ["bytecode.c", "tuple.c", "string.c", "util.c", "value.c", "wrap.c", "state.c"],
 "remove_bodies": ["safe_memcpy", "janet_formatc", "janet_sandbox", "janet_sandbox_assert", "janet_init", "janet_deinit", "janet_compare", "janet_table_get", "janet_mcall", "janet_call", "janet_pcall", "janet_to_string", "janet_symbol", "janet_next", "janet_in", "janet_get", "janet_put", "janet_length", "janet_lengthv", "janet_getindex", "janet_putindex"],
 "allow_no_body": ["janet_formatc"],
 "no_body_deny_re": "^(safe_memcpy|memcpy|janet_tuple_|janet_string|janet_strbinsearch|janet_cstrcmp|janet_checkint|janet_hash|janet_kv_calchash|janet_array_calchash|read_instruction|doarg|janet_asm_decode_instruction|janet_asm_reverse_lookup)",
 "backend": "cadical",
 "unwind": 24,
 "unwind_functions": {"janet_asm_reverse_lookup": 90, "janet_strbinsearch": 9, "janet_cstrcmp": 22},
 "timeout": 200,
 "mem_gb": 4,
 "cases_py": "asm_instr_cases.py",
 "functions_encoded": ["asm.c: janet_asm_decode_instruction, janet_asm_reverse_lookup, tup1..tup4 (disassembler side); read_instruction, doarg, doarg_1 and the opcode-name lookup of janet_asm1 (assembler side)", "util.c: janet_strbinsearch, janet_cstrcmp", "bytecode.c: janet_instructions", "tuple.c, string.c: tuple and string construction"],
 "asserted": ["D1: for the case's opcode and ALL 2^24 operand bit patterns, assembling the tuple the disassembler produces for the instruction word yields the identical word (for the two operand-less instructions: the same opcode with the ignored operand bits cleared)", "D2: re-assembly raises no error, except for one-operand (slot) instructions whose 24-bit slot exceeds the assembler's 16-bit limit, where it must raise", "D3: the mnemonic the disassembler prints is found again by the assembler's table search and names the same opcode"],
 "bounds": ["one instruction word per case, opcode concrete (all opcodes of the enum except the two upvalue instructions), the 24 operand bits symbolic; breakpoint bit clear"],
 "stubs": ["symbol interning (janet_csymbol) = plain string allocation with the same bytes", "GC allocation = malloc", "janet_formatc (error text) has no body", "longjmp out of the assembler = end of path after the D2 obligation"],
 "outside_claim": ["load-upvalue/set-upvalue (need nested assemblers: the property speaks of functions that capture nothing)", "whole-function sections of disasm/asm (constants, environments, nested defs, source maps)", "named slots/labels/constants in hand-written assembly"]
}
VF */
#include <janet.h>
#include "features.h"
#include "vf_stubs.h"
#include "state.h"
#include "gc.h"
#include <setjmp.h>
#include <string.h>
/* typed allocations: a tuple of up to 4 slots, a string of up to 23 bytes (CBMC keeps the fields of a typed object exact,
 * a byte blob would turn the mnemonic pointer read back from the tuple into a byte-extract it cannot follow) */
struct vf_tup4 { JanetTupleHead h; Janet d[4]; };
struct vf_str24 { JanetStringHead h; uint8_t d[24]; };
void *janet_gcalloc(enum JanetMemoryType type, size_t size) {
    JanetGCObject *p;
    if (type == JANET_MEMORY_TUPLE) {
        VF_ASSERT(size <= sizeof(struct vf_tup4), "tuple larger than 4 slots");
        struct vf_tup4 *q = malloc(sizeof(struct vf_tup4));
        p = (JanetGCObject *) q;
    } else if (type == JANET_MEMORY_STRING || type == JANET_MEMORY_SYMBOL) {
        VF_ASSERT(size <= sizeof(struct vf_str24), "string longer than 23 bytes");
        struct vf_str24 *q = malloc(sizeof(struct vf_str24));
        p = (JanetGCObject *) q;
    } else {
        p = malloc(size);
    }
#ifndef VF_REPLAY
    __CPROVER_assume(p != 0);
#endif
    p->flags = type; p->data.next = NULL;
    return p;
}
#ifndef VF_REPLAY
/* CBMC's built-in memcpy loses copies whose size is not a literal (E19): byte-wise C definition; util.c's safe_memcpy is body-removed */
void *memcpy(void *d, const void *s, size_t n) { uint8_t *dd = d; const uint8_t *ss = s; for (size_t i = 0; i < n; i++) dd[i] = ss[i]; return d; }
void safe_memcpy(void *dest, const void *src, size_t len) { if (!len) return; memcpy(dest, src, len); }
#endif
void janet_gcpressure(size_t s) { (void) s; }
const uint8_t *janet_csymbol(const char *str) { return janet_string((const uint8_t *) str, (int32_t) strlen(str)); }
static int vf_err_expected;
#ifndef VF_REPLAY
int _setjmp(jmp_buf env) { (void) env; return 0; }
void longjmp(jmp_buf env, int v) { (void) env; (void) v; VF_ASSERT(vf_err_expected, "re-assembling a disassembled instruction raised an error"); VF_CUT(); while (1) {} }
#endif
#include "asm.c"

#ifndef VF_OPC
#define VF_OPC JOP_ADD
#endif

void harness(void) {
    uint32_t operands = vf_u32() & 0xFFFFFFu;
    uint32_t instr = (uint32_t) VF_OPC | (operands << 8);
    enum JanetInstructionType type = janet_instructions[VF_OPC];
    vf_err_expected = (type == JINT_S && operands > 0xFFFFu);
    Janet dec = janet_asm_decode_instruction(instr);
    VF_ASSERT(janet_checktype(dec, JANET_TUPLE), "disassembled instruction is not a tuple");
    const Janet *t = janet_unwrap_tuple(dec);
    /* The disassembler's tuple is read back field by field and every field's SHAPE is asserted, then the same tuple is laid
     * out in a local with those (now literal) shapes: CBMC cannot propagate type tags and pointers through the heap tuple,
     * and the assembler would otherwise be explored on every argument type.  Operand VALUES stay whatever the tuple holds. */
    int32_t nargs = (type == JINT_0) ? 0 : (type == JINT_S || type == JINT_L) ? 1 : (type == JINT_SSS || type == JINT_SSI || type == JINT_SSU || type == JINT_SES) ? 3 : 2;
    VF_ASSERT(janet_tuple_length(t) == nargs + 1, "operand count");
    VF_ASSERT(janet_checktype(t[0], JANET_SYMBOL), "no mnemonic");
    const JanetInstructionDef *rdef = janet_asm_reverse_lookup(instr);
    VF_ASSERT(rdef != NULL && rdef->opcode == VF_OPC, "reverse lookup");
    const uint8_t *sym = janet_unwrap_symbol(t[0]);
    int32_t nlen = (int32_t) strlen(rdef->name);
    VF_ASSERT(janet_string_length(sym) == nlen, "mnemonic length");
    for (int32_t i = 0; i < nlen; i++) VF_ASSERT(sym[i] == (uint8_t) rdef->name[i], "mnemonic text");
    static struct vf_tup4 loc;
    loc.h.length = nargs + 1;
    const uint8_t *name = janet_string((const uint8_t *) rdef->name, nlen);
    loc.d[0] = janet_wrap_symbol(name);
    for (int32_t i = 1; i <= nargs; i++) {
        VF_ASSERT(janet_checktype(t[i], JANET_NUMBER), "operand is not a number");
        loc.d[i] = janet_wrap_number(janet_unwrap_number(t[i]));
    }
    t = loc.d;
    /* the assembler's lookup (janet_asm1) */
    const JanetInstructionDef *idef = janet_strbinsearch(&janet_ops, sizeof(janet_ops) / sizeof(JanetInstructionDef), sizeof(JanetInstructionDef), name);
    VF_ASSERT(idef != NULL, "the assembler does not know the mnemonic the disassembler printed");
    VF_ASSERT(idef->opcode == VF_OPC, "mnemonic names another opcode");
    JanetAssembler a;
    JanetFuncDef def;
    memset(&a, 0, sizeof(a)); memset(&def, 0, sizeof(def));
    a.def = &def; a.parent = NULL; a.errindex = 0;
#ifdef VF_REPLAY
    if (setjmp(a.on_error)) { VF_ASSERT(vf_err_expected, "re-assembling a disassembled instruction raised an error"); VF_CUT(); }
#endif
    VF_WITNESS("about to re-assemble");
    uint32_t re = read_instruction(&a, idef, t);
    VF_ASSERT(!vf_err_expected, "a slot beyond the assembler's range was accepted");
    /* the two operand-less instructions ignore their operand bits; the disassembly does not print them */
    VF_ASSERT(re == (type == JINT_0 ? (instr & 0xFFu) : instr), "asm(disasm(instruction)) differs from the instruction");
}
