/* vf_vm.h — E9: run the REAL interpreter (vm.c run_vm, fiber.c) on concrete bytecode produced by the real compiler
 * of the current tree (tools/fdump.c), with symbolic operands.  Included by generated harnesses after the
 * generated initialisers. */
#ifndef VF_VM_H
#define VF_VM_H
#include "features.h"
#include "vf_stubs.h"
#include "state.h"
#include "gc.h"
#include "fiber.h"
#include <setjmp.h>

/* GC: allocation = malloc, no collection (transparency of collection is C01's subject) */
void *janet_gcalloc(enum JanetMemoryType type, size_t size) {
    JanetGCObject *p = malloc(size);
#ifndef VF_REPLAY
    __CPROVER_assume(p != 0);
#endif
    p->flags = type;
    p->data.next = NULL;
    return p;
}
void janet_gcpressure(size_t s) { (void) s; }
void janet_collect(void) { }
void janet_fiber_did_resume(JanetFiber *fiber) { (void) fiber; }
int janet_gclock(void) { return 0; }
void janet_gcunlock(int h) { (void) h; }
#ifndef VF_REPLAY
/* janet_try: setjmp returns 0 on the direct path; a longjmp (janet_signalv) is modelled by the panic stubs */
int _setjmp(jmp_buf env) { (void) env; return 0; }
#endif

#ifndef VF_REPLAY
/* CBMC's built-in memcpy/memmove lose copies whose size is not a literal: word-wise C definitions instead
 * (all copies in fiber.c/vm.c move whole Janet slots or stack frames, 8-byte multiples) */
/* slot-wise when the size is a whole number of Janet slots (struct assignment keeps every field exact; a uint64_t/byte view of
 * a Janet array lost the type field next to the padding), byte-wise otherwise */
void *memmove(void *d, const void *s, size_t n) {
    if (n % sizeof(Janet) == 0) {
        Janet *dd = d; const Janet *ss = s; size_t w = n / sizeof(Janet);
        if ((uintptr_t) dd < (uintptr_t) ss) { for (size_t i = 0; i < w; i++) dd[i] = ss[i]; }
        else { for (size_t i = w; i > 0; i--) dd[i - 1] = ss[i - 1]; }
        return d;
    }
    uint8_t *dd = d; const uint8_t *ss = s;
    if ((uintptr_t) dd < (uintptr_t) ss) { for (size_t i = 0; i < n; i++) dd[i] = ss[i]; }
    else { for (size_t i = n; i > 0; i--) dd[i - 1] = ss[i - 1]; }
    return d;
}
void *memcpy(void *d, const void *s, size_t n) {
    if (n % sizeof(Janet) == 0) {
        Janet *dd = d; const Janet *ss = s; size_t w = n / sizeof(Janet);
        for (size_t i = 0; i < w; i++) dd[i] = ss[i];
        return d;
    }
    uint8_t *dd = d; const uint8_t *ss = s;
    for (size_t i = 0; i < n; i++) dd[i] = ss[i];
    return d;
}
/* util.c's safe_memcpy is body-removed by the E9 harnesses (its memcpy call binds to CBMC's built-in model, which loses copies
 * of non-literal size: closure environments came out empty); same semantics, local copy loop */
void safe_memcpy(void *dest, const void *src, size_t len) { if (!len) return; memcpy(dest, src, len); }
#endif

static void vf_vm_init(void) {
    janet_vm.traversal = NULL; janet_vm.traversal_base = NULL; janet_vm.traversal_top = NULL;
    janet_vm.stackn = 0; janet_vm.fiber = NULL; janet_vm.root_fiber = NULL;
    janet_vm.signal_buf = NULL; janet_vm.return_reg = NULL; janet_vm.coerce_error = 0;
    janet_vm.gc_interval = 0x7FFFFFFF; janet_vm.next_collection = 0; janet_vm.gc_suspend = 1;
    janet_vm.auto_suspend = 0;
    janet_vm.scratch_mem = NULL; janet_vm.scratch_len = 0; janet_vm.scratch_cap = 0;
}

/* run fn on argv in a fresh fiber; *sig receives the signal */
static Janet vf_run(JanetFunction *fn, int32_t argc, const Janet *argv, JanetSignal *sig) {
    JanetFiber *fiber = janet_fiber(fn, 64, argc, argv);
    Janet out = janet_wrap_nil();
    VF_ASSERT(fiber != NULL, "arity mismatch when creating the fiber");
    *sig = janet_continue(fiber, janet_wrap_nil(), &out);
    return out;
}

/* operand domain for arithmetic-heavy harnesses: a table of boundary doubles, the solver picks the entry.
 * (two separately executed floating-point multiplications/divisions on fully symbolic doubles are an equivalence
 * problem no SAT back end finishes; + - and comparisons are run on all doubles in separate cases) */
static const double vf_dom[20] = {0.0, -0.0, 1.0, -1.0, 2.0, 3.0, -7.0, 0.5, -2.5, 1e308, -1e308, 1.0 / 0.0, -1.0 / 0.0, 0.0 / 0.0,
                                  2147483647.0, -2147483648.0, 4294967296.0, 9007199254740992.0, 255.0, -129.0};
#define VF_NDOM 20
static double vf_num(void) {
#ifdef VF_FULL_DOUBLES
    return vf_f64();
#else
    return vf_dom[vf_range(0, VF_NDOM - 1)];
#endif
}

/* bit-identity with all NaNs identified */
static int vf_same(Janet a, Janet b) {
    if (a.type != b.type) return 0;
    if (a.type == JANET_NUMBER) {
        union { double d; uint64_t u; } x, y; x.d = janet_unwrap_number(a); y.d = janet_unwrap_number(b);
        return x.u == y.u || (x.d != x.d && y.d != y.d);
    }
    if (a.type == JANET_NIL) return 1;
    if (a.type == JANET_BOOLEAN) return janet_unwrap_boolean(a) == janet_unwrap_boolean(b);
    return a.as.pointer == b.as.pointer;
}
#endif
