/* VF
{
 "defines": ["-DJANET_NO_NANBOX"],
 "units": ["vector.c", "fiber.c", "value.c", "wrap.c", "state.c", "util.c", "tuple.c", "array.c", "buffer.c", "table.c", "struct.c", "string.c"],
 "remove_bodies": ["janet_sandbox", "janet_sandbox_assert", "janet_init", "janet_deinit", "janet_in", "janet_get", "janet_put", "janet_next", "janet_length", "janet_lengthv", "janet_getindex", "janet_putindex", "janet_compare", "janet_equals", "janet_hash", "janet_call", "janet_pcall", "janet_symbol", "janet_csymbol", "janet_to_string", "janet_to_string_b", "janet_table_put", "janet_table_get", "janet_struct_put", "janet_struct_end", "janet_struct_begin", "janet_continue", "janet_continue_signal"],
 "remove_bodies_after_link": ["unmarshal_one"],
 "allow_no_body": ["unmarshal_one"],
 "no_body_deny_re": "^(janet_v_|janet_s(re|m)alloc|janet_fiber$|janet_fiber_reset|janet_fiber_funcframe|janet_env_valid|unmarshal_one_env|readint|readnat)",
 "backend": "cadical",
 "unwind": 12,
 "unwind_functions": {"harness": 34},
 "timeout": 300,
 "mem_gb": 4,
 "cases": [{"name": "read_on_stack", "D": ["-DVF_PART=0", "-DVF_OFFSTACK=0"]}, {"name": "read_off_stack", "D": ["-DVF_PART=0", "-DVF_OFFSTACK=1"]}, {"name": "valid_foreign_fiber", "D": ["-DVF_PART=1", "-DVF_OWNED=0"]}, {"name": "valid_matching_frame", "D": ["-DVF_PART=1", "-DVF_OWNED=1"]}],
 "functions_encoded": ["marsh.c: unmarshal_one_env, readint, readnat", "fiber.c: janet_env_valid, janet_fiber"],
 "asserted": ["U2: a closure environment read from an untrusted image with ARBITRARY offset and length integers that names a fiber carries the untrusted marker (offset <= 0) when unmarshal_one_env returns, so the interpreter's janet_env_valid check cannot be skipped", "U4: the real janet_env_valid, run on that environment, either rejects it and leaves an EMPTY environment (length 0, no values) or accepts it only when offset is the frame of the fiber that owns this very environment and length equals that frame's slot count, so offset+index stays inside the fiber's stack for every index below length", "an off-stack environment has a value array of exactly length > 0 slots"],
 "bounds": ["on-stack cases: offset and length any 32-bit integers (5-byte encoding); off_stack case: offset 0, length 0..3; target fiber: two frames with 2 and 3 slots; the owning frame, if any, chosen by the solver"],
 "stubs": ["GC and scratch allocation = malloc/realloc", "janet_panic family = end of path", "unmarshal_one (the nested value reader) has no body: it yields an ARBITRARY value, of which janet_asserttype lets only fibers pass (read_* cases); the valid_* cases start from an ARBITRARY environment satisfying what the read_* cases establish (offset < 0, length >= 0) that names a fiber whose stack holds two frames (2 and 3 slots), laid out directly"],
 "outside_claim": ["fibers that are themselves forged (unmarshal_one_fiber validation)", "funcdef field validation", "the interpreter's use of the environment after validation (thorough harness env_unmarshal)"]
}
VF */
#include <janet.h>
#include "features.h"
#include "vf_stubs.h"
#include "state.h"
#include "gc.h"
#include "fiber.h"
#include <setjmp.h>
void *janet_gcalloc(enum JanetMemoryType type, size_t size) {
    JanetGCObject *p = malloc(size);
#ifndef VF_REPLAY
    __CPROVER_assume(p != 0);
#endif
    memset(p, 0, size);
    p->flags = type; p->data.next = NULL;
    return p;
}
void *janet_srealloc(void *p, size_t n) { void *q = realloc(p, n); VF_ASSUME(q != NULL); return q; }
void *janet_smalloc(size_t n) { void *q = malloc(n); VF_ASSUME(q != NULL); return q; }
void janet_sfree(void *p) { free(p); }
void janet_gcpressure(size_t s) { (void) s; }
void janet_collect(void) { }
void janet_fiber_did_resume(JanetFiber *fiber) { (void) fiber; }
#ifndef VF_REPLAY
int _setjmp(jmp_buf env) { (void) env; return 0; }
#endif
#include "marsh.c"

static uint32_t tbc[1] = { JOP_RETURN_NIL };
static JanetFuncDef tdef;
static JanetFunction *tfnp;

void harness(void) {
    janet_vm.traversal = NULL; janet_vm.traversal_base = NULL; janet_vm.traversal_top = NULL;
    janet_vm.stackn = 0; janet_vm.fiber = NULL; janet_vm.root_fiber = NULL; janet_vm.signal_buf = NULL; janet_vm.return_reg = NULL;
    janet_vm.coerce_error = 0; janet_vm.gc_interval = 0x7FFFFFFF; janet_vm.next_collection = 0; janet_vm.gc_suspend = 1; janet_vm.auto_suspend = 0;
#if VF_PART == 0
    /* U2: read one funcenv from untrusted bytes: offset, length (arbitrary), then a nested value */
    uint8_t img[13];
    img[0] = LB_INTEGER; for (int i = 1; i < 5; i++) img[i] = vf_u8();
    img[5] = LB_INTEGER; for (int i = 6; i < 10; i++) img[i] = vf_u8();
    img[10] = LB_REFERENCE; img[11] = 0; img[12] = 0;
#if !VF_OFFSTACK
    VF_ASSUME(img[1] < 128 && (img[1] | img[2] | img[3] | img[4]) != 0);      /* offset > 0: the on-stack variant */
#else
    VF_ASSUME(img[1] == 0 && img[2] == 0 && img[3] == 0 && img[4] == 0);      /* offset 0 */
    VF_ASSUME(img[6] == 0 && img[7] == 0 && img[8] == 0 && img[9] <= 3);      /* length 0..3 */
#endif
    UnmarshalState st; memset(&st, 0, sizeof(st));
    st.start = img; st.end = img + 12;
#ifdef VF_REPLAY
    /* natively unmarshal_one is the real reader: let the image's reference resolve to some fiber */
    janet_v_push(st.lookup, janet_wrap_fiber((JanetFiber *) calloc(1, sizeof(JanetFiber))));
#endif
    JanetFuncEnv *env = NULL;
    VF_WITNESS("env image about to be read");
    (void) unmarshal_one_env(&st, img, &env, 0);
    VF_ASSERT(env != NULL, "env produced");
#if !VF_OFFSTACK
    VF_ASSERT(env->offset < 0, "environment read from an image names a fiber stack but is not marked untrusted");
    VF_ASSERT(env->length >= 0, "negative length");
    VF_WITNESS("on-stack variant");
#else
    VF_ASSERT(env->offset == 0 && env->length > 0 && env->length <= 3 && env->as.values != NULL, "off-stack environment without values");
    VF_WITNESS("off-stack variant");
#endif
#else
    /* U4: one janet_env_valid step from an ARBITRARY untrusted environment naming a fiber with two frames
     * (2 slots at stack offset 4, 3 slots at offset 10); the fiber stack is laid out directly, frames typed as frames */
    static struct { JanetStackFrame fa; Janet pada[2]; Janet sa[2]; JanetStackFrame fb; Janet padb[2]; Janet sb[3]; } stk;   /* a frame takes JANET_FRAME_SIZE = 4 slots */
    static JanetFuncDef defa, defb;
    static JanetFiber fib;
    JanetFunction *fna = malloc(sizeof(JanetFunction)), *fnb = malloc(sizeof(JanetFunction));
    VF_ASSUME(fna != NULL && fnb != NULL);
    defa.slotcount = 2; defb.slotcount = 3; fna->def = &defa; fnb->def = &defb;
    stk.fa.func = fna; stk.fa.prevframe = 0; stk.fa.env = NULL;
    stk.fb.func = fnb; stk.fb.prevframe = 4; stk.fb.env = NULL;
    JanetFiber *tf = &fib;
    tf->data = (Janet *) &stk; tf->frame = 10; tf->stackstart = 13; tf->stacktop = 13; tf->capacity = 13;
    JanetFuncEnv *env = malloc(sizeof(JanetFuncEnv));
    VF_ASSUME(env != NULL);
    env->offset = (int32_t) vf_u32();
    env->length = (int32_t) vf_u32();
    VF_ASSUME(env->offset < 0 && env->offset > INT32_MIN && env->length >= 0);     /* what unmarshal_one_env leaves (part 0) */
    env->as.fiber = tf;
    int owner = -1;
#if VF_OWNED
    owner = (int) vf_range(0, 1);
    if (owner == 0) stk.fa.env = env; else stk.fb.env = env;
#endif
    int ok = janet_env_valid(env);
    if (ok) {
#if VF_OWNED
        VF_WITNESS("environment accepted");
#endif
        VF_ASSERT(owner >= 0, "an environment the fiber does not own was accepted");
        VF_ASSERT(owner == 0 ? (env->offset == 4 && env->length == 2) : (env->offset == 10 && env->length == 3), "accepted environment does not name the owning frame");
        VF_ASSERT(env->offset + env->length <= tf->capacity, "accepted environment reaches outside the fiber stack");
    } else {
        VF_WITNESS("environment rejected");
        VF_ASSERT(env->offset == 0 && env->length == 0 && env->as.values == NULL, "rejected environment is not empty");
    }
#endif
}
