import re, os
def cases(tier, hdr, path):
    src = open(os.path.join(os.environ.get("VF_REPO", "/repo"), "src/include/janet.h")).read()
    m = re.search(r"enum JanetOpCode \{(.*?)\};", src, re.S)
    ops = [x.strip().rstrip(",") for x in m.group(1).split("\n") if x.strip().startswith("JOP_")]
    out = []
    for name in ("JOP_JUMP", "JOP_JUMP_IF", "JOP_JUMP_IF_NOT", "JOP_JUMP_IF_NIL", "JOP_JUMP_IF_NOT_NIL"):
        for mask in (0, 2, 4, 8, 6, 10, 12, 14):
            out.append({"name": "%s_noops%d" % (name[4:].lower(), mask), "D": ["-DVF_JOP=%d" % ops.index(name), "-DVF_JOP_IS_L=%d" % (1 if name == "JOP_JUMP" else 0), "-DVF_NOOPMASK=%d" % mask]})
    return out
