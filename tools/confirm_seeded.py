#!/usr/bin/env python3
"""confirm each seeded change in a scratch worktree: applies, compiles, `make test` passes, demo fails with it and passes without.
usage: confirm_seeded.py [ids...]   (writes seeded/<id>/meta.json fields confirmed_*)"""
import subprocess, sys, os, json, glob, shutil
V = "/verif"; WT = "/tmp/wt/confirm"
def sh(cmd, cwd=None, timeout=900):
    p = subprocess.run(cmd, shell=True, cwd=cwd, capture_output=True, text=True, timeout=timeout)
    return p.returncode, (p.stdout + p.stderr)
ids = sys.argv[1:] or sorted(os.path.basename(d) for d in glob.glob(V + "/seeded/*") if os.path.isdir(d))
subprocess.run("git -C /repo worktree remove --force %s 2>/dev/null; git -C /repo worktree add --detach %s HEAD" % (WT, WT), shell=True, capture_output=True)
rc, out = sh("make -j16 2>&1 | tail -3", WT)
def demo(d):
    for f in ("demo.janet",):
        if os.path.exists(os.path.join(d, f)):
            try:
                rc, out = sh("timeout 120 ./build/janet %s" % os.path.join(d, f), WT, 150)
            except subprocess.TimeoutExpired:
                return 124, "timeout"
            return rc, out[-400:]
    return None, "no demo.janet"
for i in ids:
    d = os.path.join(V, "seeded", i)
    mp = os.path.join(d, "meta.json")
    meta = json.load(open(mp)) if os.path.exists(mp) else {}
    rc0, o0 = demo(d)
    rc, out = sh("git apply -C1 %s/patch.diff" % d, WT)
    if rc != 0:
        meta.update({"confirmed": False, "why": "patch does not apply: " + out[-200:]}); json.dump(meta, open(mp, "w"), indent=1); print(i, "NOAPPLY"); continue
    rcb, ob = sh("make -j16 2>&1 | tail -5", WT)
    built = os.path.exists(WT + "/build/janet") and "rror" not in ob
    rct, ot = sh("make test 2>&1 | tail -40", WT)
    if rct != 0:   # suite-ev is port-flaky when run concurrently: retry once
        rct, ot = sh("make test 2>&1 | tail -40", WT)
    rc1, o1 = demo(d)
    sh("git checkout -- . && make -j16 2>&1 | tail -1", WT)
    meta.update({"property": i.split("_")[0], "confirmed_compiles": built, "confirmed_tests_pass": rct == 0,
                 "confirmed_demo_clean_rc": rc0, "confirmed_demo_patched_rc": rc1,
                 "confirmed": bool(built and rct == 0 and rc0 == 0 and rc1 not in (0, None)),
                 "ran": ["git apply -C1 patch.diff", "make -j16", "make test", "build/janet demo.janet (patched and clean)"],
                 "demo_patched_tail": o1[-300:]})
    json.dump(meta, open(mp, "w"), indent=1)
    print(i, "confirmed" if meta["confirmed"] else "NOT CONFIRMED", built, rct, rc0, rc1, flush=True)
subprocess.run("git -C /repo worktree remove --force %s" % WT, shell=True)
