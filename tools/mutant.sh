#!/bin/sh
# tools/mutant.sh <patch> <PID> [vf.py args...]  : apply a seeded change to /repo, run the check, always revert
P=$1; ID=$2; shift 2
git -C /repo apply -C1 "$P" || { echo "patch does not apply"; exit 9; }
python3 /verif/vf.py check $ID "$@" 2>&1 | grep -v "\] ok" | tail -${TAILN:-12}
rc=$?
git -C /repo checkout -- .
git -C /repo status --short
