"""C12: PEG harnesses. Grammars are compiled by peg/compile of the current tree (tools/pegdump.c); the real matcher
(peg.c peg_rule and the cfunctions) runs on texts of symbolic bytes."""
import os, json

# grammar corpus: (name, source, reference-expression for the core oracle or None)
# the reference language (h/C12/pegref.h) is written against the documented meaning of each combinator
GRAMMARS = [
    ("lit_seq", '(* "a" "b")'),
    ("choice_cap", '(+ (* "a" (<- (some "b")) "c") (* (<- "ab") (! "c")))'),
    ("any_some", '(* (any "a") (some "b"))'),
    ("between", '(between 1 2 "a")'),
    ("opt_set", '(* (? (set "ab")) (range "ac"))'),
    ("not_look", '(* (not "b") (> 0 "a") 1)'),
    ("if_ifnot", '(* (if "a" 1) (if-not "c" 1))'),
    ("to_thru", '(* (to "b") (thru "c"))'),
    ("captures_backtrack", '(+ (* (<- "a") (<- "b") "c") (* (<- 1) (<- 1)))'),
    ("position", '(* "a" ($) (<- 1))'),
    ("backmatch_opt", '(* (? (<- "a" :x)) "b" (backmatch :x))'),
    ("backref", '(* (<- 1 :x) "b" (-> :x))'),
    ("accumulate", '(% (* (<- 1) (<- 1)))'),
    ("accum_tag_nested", '(% (* (% (* (<- 1) (<- 1)) :x) "c" (-> :x)))'),
    ("drop_group", '(* (drop (<- "a")) (group (* (<- 1) (<- 1))))'),
    ("recursive", '{:main (+ (* "a" :main "b") "c")}'),
    ("atleast_atmost", '(* (at-least 1 "a") (at-most 2 "b"))'),
    ("nchars", '(* 2 -1)'),
    ("sub_window", '(sub (<- 2) (* "a" (<- 1)))'),
    ("lenprefix_like", '(* (<- (set "ab")) (repeat 2 "c"))'),
]

# hand-written reference meaning of some grammars for a match at offset 0 of text t[0..L):
# sets ok, ncap, and the first capture: c0len bytes in c0 (c0len = -1: first capture is the number c0num)
REFS = {
    "lit_seq": "ok = L >= 2 && t[0] == 'a' && t[1] == 'b'; ncap = 0;",
    "between": "ok = L >= 1 && t[0] == 'a'; ncap = 0;",
    "choice_cap": "{ int k = 1; while (k < L && t[k] == 'b') k++; if (L >= 3 && t[0] == 'a' && k > 1 && k < L && t[k] == 'c') { ok = 1; ncap = 1; c0len = k - 1; for (int i = 0; i < k - 1; i++) c0[i] = 'b'; } "
                  "else if (L >= 2 && t[0] == 'a' && t[1] == 'b' && !(L >= 3 && t[2] == 'c')) { ok = 1; ncap = 1; c0len = 2; c0[0] = 'a'; c0[1] = 'b'; } else ok = 0; }",
    "captures_backtrack": "if (L >= 3 && t[0] == 'a' && t[1] == 'b' && t[2] == 'c') { ok = 1; ncap = 2; c0len = 1; c0[0] = 'a'; } else if (L >= 2) { ok = 1; ncap = 2; c0len = 1; c0[0] = t[0]; } else ok = 0;",
    "backref": "if (L >= 2 && t[1] == 'b') { ok = 1; ncap = 2; c0len = 1; c0[0] = t[0]; } else ok = 0;",
    "accumulate": "if (L >= 2) { ok = 1; ncap = 1; c0len = 2; c0[0] = t[0]; c0[1] = t[1]; } else ok = 0;",
    "accum_tag_nested": "if (L >= 3 && t[2] == 'c') { ok = 1; ncap = 1; c0len = 4; c0[0] = t[0]; c0[1] = t[1]; c0[2] = t[0]; c0[3] = t[1]; } else ok = 0;",
    "position": "if (L >= 2 && t[0] == 'a') { ok = 1; ncap = 2; c0len = -1; c0num = 1; } else ok = 0;",
    "backmatch_opt": "if (L >= 3 && t[0] == 'a' && t[1] == 'b' && t[2] == 'a') { ok = 1; ncap = 1; c0len = 1; c0[0] = 'a'; } else ok = 0;",
}

TEMPLATE = r'''/* VF
%(hdr)s
VF */
#include "features.h"
#include "vf_stubs.h"
#include "state.h"
#include "gc.h"
void *janet_gcalloc(enum JanetMemoryType type, size_t size) {
    JanetGCObject *p = malloc(size);
#ifndef VF_REPLAY
    __CPROVER_assume(p != 0);
#endif
    p->flags = type; p->data.next = NULL;
    return p;
}
void janet_gcpressure(size_t s) { (void) s; }
#ifndef VF_REPLAY
/* CBMC's built-in memcpy/memmove lose copies of symbolic size: byte-wise C definitions */
void *memmove(void *d, const void *s, size_t n) {
    uint8_t *dd = d; const uint8_t *ss = s;
    __CPROVER_assert(n <= 32, "copy size within the harness bound");
    if ((uintptr_t) dd < (uintptr_t) ss) { for (size_t i = 0; i < n; i++) dd[i] = ss[i]; }
    else { for (size_t i = n; i > 0; i--) dd[i - 1] = ss[i - 1]; }
    return d;
}
void *memcpy(void *d, const void *s, size_t n) {
    uint8_t *dd = d; const uint8_t *ss = s;
    __CPROVER_assert(n <= 32, "copy size within the harness bound");
    for (size_t i = 0; i < n; i++) dd[i] = ss[i];
    return d;
}
#endif
/* pp.c is not linked (formatting fan-out): stringification of a STRING capture (used when a tagged capture is
   re-emitted inside an accumulate) is its bytes; any other type reaching it is outside this harness' domain */
void janet_to_string_b(JanetBuffer *buffer, Janet x) {
    if (!janet_checktype(x, JANET_STRING)) VF_UNREACHABLE("a non-string capture was stringified (outside the harness domain)");
    janet_buffer_push_bytes(buffer, janet_unwrap_string(x), janet_string_length(janet_unwrap_string(x)));
}
/* capture stacks: fixed-capacity storage allocated once (growth by realloc with a symbolic size exhausts the solver);
   the bound is itself an obligation */
void janet_array_ensure(JanetArray *array, int32_t capacity, int32_t growth) {
    (void) growth;
    VF_ASSERT(capacity <= 8, "capture stack deeper than the harness bound");
    if (array->capacity < 8) {
        Janet *nd = malloc(sizeof(Janet) * 8);
#ifndef VF_REPLAY
        __CPROVER_assume(nd != 0);
#endif
        for (int i = 0; i < 8; i++) if (i < array->count) nd[i] = array->data[i];
        array->data = nd; array->capacity = 8;
    }
}
void janet_buffer_ensure(JanetBuffer *buffer, int32_t capacity, int32_t growth) {
    (void) growth;
    VF_ASSERT(capacity <= 32, "scratch/tag buffer larger than the harness bound");
    if (buffer->capacity < 32) {
        uint8_t *nd = malloc(32);
#ifndef VF_REPLAY
        __CPROVER_assume(nd != 0);
#endif
        for (int i = 0; i < 32; i++) if (i < buffer->count) nd[i] = buffer->data[i];
        buffer->data = nd; buffer->capacity = 32;
    }
}
#include "peg.c"
#include "%(gen)s"

#define G %(gi)d
#define PEG(g) PEG_(g)
#define PEG_(g) vf_peg_##g
#define PEGINIT(g) PEGINIT_(g)
#define PEGINIT_(g) vf_peg_init_##g

static struct { JanetStringHead head; uint8_t data[VF_L + 1]; } text;

void harness(void) {
    janet_vm.traversal = NULL; janet_vm.traversal_base = NULL; janet_vm.traversal_top = NULL;
    PEGINIT(G)();
    text.head.length = VF_L; text.head.hash = 0;
    for (int i = 0; i < VF_L; i++) { uint8_t c = vf_u8(); VF_ASSUME(c == 'a' || c == 'b' || c == 'c'); text.data[i] = c; }
    text.data[VF_L] = 0;
    Janet argv[3];
    argv[0] = janet_wrap_abstract(&PEG(G).peg);
    argv[1] = janet_wrap_string(text.data);
    VF_WITNESS("matcher entered");
#if VF_MODE == 2
    /* reference meaning of this grammar (hand-written from the documented semantics of its combinators) */
    {
        const uint8_t *t = text.data; const int L = VF_L;
        int ok = 0, ncap = 0, c0len = 0; double c0num = 0; uint8_t c0[8];
        %(ref)s
        Janet m = cfun_peg_match(2, argv);
        VF_ASSERT(ok == !janet_checktype(m, JANET_NIL), "peg/match succeeds/fails differently from the documented meaning of the grammar");
        if (ok) {
            JanetArray *caps = janet_unwrap_array(m);
            VF_ASSERT(caps->count == ncap, "number of captures differs from the documented meaning (captures of a failed alternative must vanish, accumulate yields one string)");
            if (ncap > 0 && c0len >= 0) {
                VF_ASSERT(janet_checktype(caps->data[0], JANET_STRING) && janet_string_length(janet_unwrap_string(caps->data[0])) == c0len, "first capture has the wrong type or length");
                for (int i = 0; i < 8; i++) if (i < c0len) VF_ASSERT(janet_unwrap_string(caps->data[0])[i] == c0[i], "first capture has the wrong bytes");
            } else if (ncap > 0) {
                VF_ASSERT(janet_checktype(caps->data[0], JANET_NUMBER) && janet_unwrap_number(caps->data[0]) == c0num, "position capture");
            }
        }
    }
#elif VF_MODE == 1
    /* memory safety of one match at an arbitrary offset (CBMC's dereference/bounds checks are on in this case) */
    argv[2] = janet_wrap_number((double) vf_range(0, VF_L));
    (void) cfun_peg_match(3, argv);
#else
    /* repeated matching at every offset with the real peg/match */
    int ok[VF_L + 1];
    for (int i = 0; i < VF_L; i++) {
        argv[2] = janet_wrap_number((double) i);
        Janet m = cfun_peg_match(3, argv);
        ok[i] = !janet_checktype(m, JANET_NIL);
    }
    Janet f = cfun_peg_find(2, argv);
    int first = -1;
    for (int i = VF_L - 1; i >= 0; i--) if (ok[i]) first = i;
    if (first < 0) VF_ASSERT(janet_checktype(f, JANET_NIL), "peg/find reports a position where peg/match does not match");
    else VF_ASSERT(janet_checktype(f, JANET_NUMBER) && janet_unwrap_number(f) == (double) first, "peg/find disagrees with the first offset at which peg/match succeeds");
    Janet fa = cfun_peg_find_all(2, argv);
    JanetArray *arr = janet_unwrap_array(fa);
    int k = 0;
    for (int i = 0; i < VF_L; i++) if (ok[i]) { VF_ASSERT(k < arr->count && janet_unwrap_number(arr->data[k]) == (double) i, "peg/find-all misses or misplaces an offset at which peg/match succeeds"); k++; }
    VF_ASSERT(arr->count == k, "peg/find-all reports an offset at which peg/match does not match");
#endif
    VF_WITNESS("matcher end");
}
'''

def prepare(tier, vf):
    gendir = os.path.join(vf.BUILD, "gen", vf.tree_hash(), "C12")
    hdir = os.path.join(gendir, "h")
    os.makedirs(hdir, exist_ok=True)
    for f in os.listdir(hdir):
        os.remove(os.path.join(hdir, f))
    src = "(map peg/compile [" + "\n ".join("'" + g[1] for g in GRAMMARS) + "])\n"
    gen = os.path.join(gendir, "grammars.h")
    vf.pegdump(src, gen)
    harnesses, info = [], {"grammars": [g[0] + ": " + g[1] for g in GRAMMARS]}
    for gi, (name, gsrc) in enumerate(GRAMMARS):
        hdr = {
            "defines": ["-DJANET_NO_NANBOX"],
            "units": ["wrap.c", "state.c", "util.c", "array.c", "buffer.c", "string.c", "capi.c", "value.c", "tuple.c"],
            "remove_bodies": ["janet_panicv", "janet_panic", "janet_panics", "janet_panicf", "janet_signalv", "janet_panic_type", "janet_panic_abstract", "janet_formatbv", "janet_formatb", "janet_formatc",
                              "janet_description_b", "janet_to_string_b", "janet_pretty", "janet_in", "janet_get", "janet_put", "janet_next", "janet_compare", "janet_equals", "janet_hash", "janet_mcall", "janet_call",
                              "janet_getindex", "janet_putindex", "janet_lengthv", "janet_buffer_format", "janet_array_ensure", "janet_buffer_ensure"],
            "no_body_deny_re": "^(peg_rule|cfun_peg|janet_array_push|janet_buffer_push|janet_string$|janet_getbytes|janet_gethalfrange)",
            "backend": "cadical", "unwind": 12, "unwind_functions": {"memcpy": 34, "memmove": 34}, "timeout": 400, "mem_gb": 6,
            "cases": [{"name": "agree_len%d" % L, "D": ["-DVF_L=%d" % L, "-DVF_MODE=0"], "cbmc": ["--no-standard-checks"], "cbmc_remove": ["--signed-overflow-check", "--div-by-zero-check", "--undefined-shift-check"],
                       "tier": "quick" if ((L == 3 and name != "drop_group") or (L == 4 and name in ("backmatch_opt", "backref", "lit_seq", "not_look", "recursive", "to_thru"))) else "thorough", "timeout_thorough": 1500} for L in (1, 2, 3, 4)] +
                     ([{"name": "ref_len%d" % L, "D": ["-DVF_L=%d" % L, "-DVF_MODE=2"], "cbmc": ["--no-standard-checks"], "cbmc_remove": ["--signed-overflow-check", "--div-by-zero-check", "--undefined-shift-check"],
                        "tier": "quick" if L in (2, 3, 4) else "thorough"} for L in (1, 2, 3, 4)] if name in REFS else []) +
                     [{"name": "memsafe_len%d" % L, "D": ["-DVF_L=%d" % L, "-DVF_MODE=1"], "tier": "quick" if (L in (2, 3) and name not in ("accumulate", "accum_tag_nested")) else "thorough", "timeout_thorough": 1500} for L in (1, 2, 3, 4)],
            "functions_encoded": ["peg.c: peg_rule, cap_save/cap_load/cap_load_keept, pushcap, cfun_peg_match, cfun_peg_find, cfun_peg_find_all, peg_cfun_init, peg_call_reset; grammar bytecode from the real peg/compile of the current tree"],
            "asserted": ["for the grammar and EVERY text over {a,b,c} of the given length: peg/find equals the first offset at which peg/match succeeds and peg/find-all equals the list of all such offsets (state such as tagged captures must not leak from one attempt to the next)",
                         "matching never reads outside the text and never writes outside its capture stacks (CBMC dereference/bounds checks on exactly-sized objects)"],
            "bounds": ["%d grammars (literals, sets, ranges, repetition, choice with backtracking, not/look/if, to/thru, captures, tags, backref/backmatch, accumulate, group, drop, sub, recursion); texts of length 1..4 over the alphabet {a,b,c}" % len(GRAMMARS)],
            "stubs": ["janet_to_string_b on a string = its bytes (pp.c not linked)", "janet_array_ensure / janet_buffer_ensure = fixed capacity 8 / 32 with the bound asserted", "GC allocation = malloc", "janet_panic family = end of path"],
            "outside_claim": ["an independent reference semantics for every grammar (only the listed grammars have one)", "replace/replace-all, cmt/error/number with callbacks, longer texts, larger alphabets, grammar compilation errors"],
        }
        hp = os.path.join(hdir, "g_%s.c" % name)
        hdr["asserted"].append("for %d of the grammars, success/failure, the number of captures and the first capture equal a hand-written reference of the documented combinator semantics (backtracking discards captures, accumulate concatenates, tagged captures feed backref/backmatch)" % len(REFS))
        open(hp, "w").write(TEMPLATE % {"hdr": json.dumps(hdr, indent=1), "gen": gen, "gi": gi, "ref": REFS.get(name, "")})
        harnesses.append(hp)
    return {"harnesses": harnesses, "info": info}
