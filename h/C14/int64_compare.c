/* VF
{
 "defines": ["-DJANET_NO_NANBOX", "-DVF_STUB_ABSTRACT"],
 "units": ["wrap.c", "capi.c"],
 "remove_bodies": ["janet_panicv","janet_panic","janet_panics","janet_panicf","janet_signalv","janet_panic_type","janet_panic_abstract"],
 "backend": "cadical",
 "timeout": 240,
 "cases": [
   {"name": "s64_vs_num", "D": ["-DVF_T=0", "-DVF_RHS=2"]},
   {"name": "s64_vs_s64", "D": ["-DVF_T=0", "-DVF_RHS=0"]},
   {"name": "s64_vs_u64", "D": ["-DVF_T=0", "-DVF_RHS=1"]},
   {"name": "u64_vs_num", "D": ["-DVF_T=1", "-DVF_RHS=2"]},
   {"name": "u64_vs_s64", "D": ["-DVF_T=1", "-DVF_RHS=0"]},
   {"name": "u64_vs_u64", "D": ["-DVF_T=1", "-DVF_RHS=1"]}
 ],
 "functions_encoded": ["inttypes.c: cfun_it_s64_compare, cfun_it_u64_compare, compare_int64_double, compare_uint64_double, compare_double_double, janet_int64_compare, janet_uint64_compare, janet_int64_hash"],
 "asserted": ["I4: the compare method equals the exact mathematical three-way comparison for every 64-bit integer against every double (NaN -> 0), and against every boxed integer of either signedness; (CBMC's --conversion-check is not used: it misreports the exactly representable bound -2^63; out-of-range conversions show up as wrong results instead)",
              "abstract-type compare callback agrees with the method on same-type operands; equal payloads hash equally"],
 "bounds": ["all 2^64 integer payloads x all 2^64 double bit patterns (full width)"],
 "stubs": ["janet_abstract (malloc-backed)", "janet_panic* = end of path"],
 "outside_claim": ["boot.janet's polymorphic compare/compare< wrappers that dispatch to this method"]
}
VF */
#include "vf_stubs.h"
#include "inttypes.c"

static Janet box(const JanetAbstractType *t, uint64_t bits) {
    uint64_t *b = janet_abstract(t, 8);
    *b = bits;
    return janet_wrap_abstract(b);
}

/* exact three-way comparison of an integer (given as sign + magnitude-free int64 or uint64) with a double */
static int ref_i64_double(int64_t x, double y) {
    if (y != y) return 0;
    if (y >= 9223372036854775808.0) return -1;
    if (y < -9223372036854775808.0) return 1;
    int64_t yi = (int64_t) y;          /* in range: truncation toward zero, exact */
    if (x < yi) return -1;
    if (x > yi) return 1;
    double frac = y - (double) yi;     /* exact: |y| >= 2^52 implies y integral */
    return frac > 0 ? -1 : (frac < 0 ? 1 : 0);
}
static int ref_u64_double(uint64_t x, double y) {
    if (y != y) return 0;
    if (y < 0) return 1;
    if (y >= 18446744073709551616.0) return -1;
    uint64_t yi = (uint64_t) y;
    if (x < yi) return -1;
    if (x > yi) return 1;
    double frac = y - (double) yi;
    return frac > 0 ? -1 : 0;
}

void harness(void) {
    uint64_t a = vf_u64();
    Janet argv[2];
    int want;
#if VF_T == 0
    argv[0] = box(&janet_s64_type, a);
#else
    argv[0] = box(&janet_u64_type, a);
#endif
#if VF_RHS == 2
    double y = vf_f64();
    argv[1] = janet_wrap_number(y);
#if VF_T == 0
    want = ref_i64_double((int64_t) a, y);
#else
    want = ref_u64_double(a, y);
#endif
#else
    uint64_t b = vf_u64();
#if VF_RHS == 0
    argv[1] = box(&janet_s64_type, b);
#else
    argv[1] = box(&janet_u64_type, b);
#endif
    /* exact comparison of two 65-bit signed quantities */
    {
        __int128 xa = (VF_T == 0) ? (__int128)(int64_t) a : (__int128) a;
        __int128 xb = (VF_RHS == 0) ? (__int128)(int64_t) b : (__int128) b;
        want = xa < xb ? -1 : (xa > xb ? 1 : 0);
    }
#endif
#if VF_T == 0
    Janet r = cfun_it_s64_compare(2, argv);
#else
    Janet r = cfun_it_u64_compare(2, argv);
#endif
    VF_ASSERT(janet_checktype(r, JANET_NUMBER), "compare returns a number for numeric operands");
    VF_ASSERT(janet_unwrap_number(r) == (double) want, "compare differs from the exact mathematical ordering");
#if VF_RHS == VF_T
    /* same-type operands: the abstract type's compare callback and hash agree */
    {
        const JanetAbstractType *at = (VF_T == 0) ? &janet_s64_type : &janet_u64_type;
        int c = at->compare(janet_unwrap_abstract(argv[0]), janet_unwrap_abstract(argv[1]));
        VF_ASSERT(c == want, "abstract compare callback differs from the method");
        if (want == 0)
            VF_ASSERT(at->hash(janet_unwrap_abstract(argv[0]), 8) == at->hash(janet_unwrap_abstract(argv[1]), 8), "equal integers hash differently");
    }
#endif
    VF_WITNESS("compare end");
}
