EDGES = ["0ULL", "1ULL", "(uint64_t)-1", "(uint64_t)INT64_MIN", "(uint64_t)INT64_MAX", "(1ULL<<31)", "(1ULL<<32)", "(1ULL<<53)", "((uint64_t)INT64_MIN+1)", "(UINT64_MAX-1)", "3ULL", "(uint64_t)-3"]

def cases(tier, hdr, path):
    ops = [("ADD","add"),("SUB","sub"),("SUBI","subi"),("MUL","mul"),("DIV","div"),("DIVI","divi"),("REM","rem"),("REMI","remi"),
           ("DIVF","divf"),("DIVFI","divfi"),("MOD","mod"),("MODI","modi"),("AND","and"),("OR","or"),("XOR","xor"),("LSH","lshift"),("RSH","rshift")]
    out = []
    for ti, t in enumerate(["s64","u64"]):
        for opid, fn in ops:
            if t == "u64" and fn in ("divf","divfi"):
                fnn = {"divf":"div","divfi":"divi"}[fn]   # u64 'div' method = plain division
            else:
                fnn = fn
            for ki, k in enumerate(["s64","u64","num"]):
                heavy = opid in ("MUL", "DIV","DIVI","REM","REMI","DIVF","DIVFI","MOD","MODI")
                if tier == "quick" and k == "u64" and opid not in ("ADD","DIV","MOD"):
                    continue
                D = ["-DVF_T=%d" % ti, "-DVF_FN=cfun_it_%s_%s" % (t, fnn), "-DVF_OP=O_%s" % opid, "-DVF_RHS=%d" % ki]
                nm = "%s_%s_%s" % (t, fn, k)
                if heavy:
                    # full-width trap obligation for every rhs kind: division by zero, INT64_MIN/-1, required errors.
                    # (the overflow check of the internal x*op2 in floor division needs mul-of-div reasoning at 64 bits:
                    #  no back end finishes; it is covered by the narrow value obligation instead)
                    out.append({"name": nm + "_trap", "D": D + ["-DVF_TRAPONLY"], "cost": 3,
                                "exclude_properties_re": [r"overflow on signed \*", r"overflow on signed -", r"overflow on signed \+"]})
                    if k == "num":
                        continue   # value path identical after conversion; conversion itself is checked by the non-division ops
                    nb = 12 if tier == "quick" else 20
                    if opid == "MUL":
                        nb = 8 if tier == "quick" else 12
                    out.append({"name": nm + "_val%d" % nb, "D": D + ["-DVF_NARROW=%d" % nb], "cost": 5, "backend": "minisat" if opid == "MUL" else "cadical"})
                    for i in range(12):
                        if i == 0 and opid in ("DIVI", "REMI", "DIVFI"):
                            continue   # self = 0 is the divisor: always an error, nothing to compare
                        out.append({"name": nm + "_edge%d" % i, "D": D + ["-DVF_EDGEGRID", "-DVF_EDGE_AI=%d" % i], "cost": 2, "timeout": 60, "backend": "cadical"})
                elif opid in ("LSH", "RSH"):
                    out.append({"name": nm, "D": D, "cbmc": ["--no-undefined-shift-check", "--no-signed-overflow-check"]})
                else:
                    out.append({"name": nm, "D": D})
    return out
