def cases(tier, hdr, path):
    out = []
    # the same harness serves C06 and C07 (symlink). The select-give step belongs to C06 only: its known finding F6
    # (a matched select that suspends) is a lost wake-up, not a spurious one.
    is_c07 = "/C07/" in path
    for op, on in ((0, "give"), (1, "take"), (2, "close"), (3, "selgive")):
        if op == 3 and is_c07:
            continue
        for ni in (0, 1, 2):
            for nr in (0, 1, 2):
                for nw in (0, 1, 2):
                    for ih in (0, 3):
                        for rh in (0, 3):
                            if rh == 3 and (nr + nw) < 2:
                                continue
                            if ih == 3 and ni < 1:
                                continue
                            t = "quick"
                            if op == 2 and ih == 3:
                                continue
                            if op == 3 and nw > 0:
                                continue
                            if (ih == 3 and rh == 3):
                                t = "thorough"
                            if op == 2 and nr + nw > 2:
                                t = "thorough"     # close with 3-4 waiters: solver memory beyond the per-case cap on this machine
                            out.append({"name": "%s_i%d_r%d_w%d_ih%d_rh%d" % (on, ni, nr, nw, ih, rh), "tier": t,
                                        "D": ["-DVF_OP=%d" % op, "-DVF_NI=%d" % ni, "-DVF_NR=%d" % nr, "-DVF_NW=%d" % nw, "-DVF_IH=%d" % ih, "-DVF_RH=%d" % rh]})
    return out
