import itertools
def cases(tier, hdr, path):
    out = []
    for n, cap in ((2, 8), (3, 8), (4, 16)):
        firsts = (0, cap - 1, cap - 2)
        for h0 in firsts:
            for rest in itertools.product(range(cap), repeat=n - 1):
                homes = (h0,) + rest
                spread = max(min((h - h0) % cap, (h0 - h) % cap) for h in homes)
                for p in itertools.permutations(range(n)):
                    if list(p) == list(range(n)):
                        continue
                    if n == 2:
                        t = "quick" if (spread <= 1) else "thorough"
                    elif n == 3:
                        t = "quick" if homes in ((7, 7, 7), (7, 0, 7)) else "thorough"
                    else:
                        if spread > 1:
                            continue          # n = 4: clustered homes only (16^3 x 23 orders otherwise)
                        t = "thorough"
                    for m0 in range(3):
                        out.append({"name": "n%d_h%s_p%s_m%d" % (n, "_".join(map(str, homes)), "".join(map(str, p)), m0), "tier": t, "cost": n, "timeout": 400, "timeout_thorough": 1500,
                                    "D": ["-DVF_NKEYS=%d" % n, "-DVF_CAP=%d" % cap, "-DVF_PERM={%s}" % ",".join(map(str, p)), "-DVF_HOMES={%s}" % ",".join(map(str, homes)),
                                          "-DVF_NMAG=%d" % (3 ** (n - 1)), "-DVF_MSTRIDE=3", "-DVF_MOFF=%d" % m0]})
    # targeted n = 4 family: two keys homed at slot h-1 and two at slot h (displacement by distance, then a hash tie one slot later)
    n, cap = 4, 16
    for homes in ((15, 15, 0, 0), (3, 3, 4, 4)):
        perms = list(itertools.permutations(range(n)))
        for p in perms:
            if list(p) == list(range(n)):
                continue
            for m01 in range(9):
                q = "quick" if (homes[0] == 15 and p == (0, 2, 3, 1) and m01 in (0, 4, 8)) else "thorough"
                out.append({"name": "n4_h%s_p%s_m%d" % ("_".join(map(str, homes)), "".join(map(str, p)), m01), "tier": q, "cost": 6, "timeout": 600, "timeout_thorough": 1500,
                            "D": ["-DVF_NKEYS=4", "-DVF_CAP=16", "-DVF_PERM={%s}" % ",".join(map(str, p)), "-DVF_HOMES={%s}" % ",".join(map(str, homes)),
                                  "-DVF_NMAG=9", "-DVF_MSTRIDE=9", "-DVF_MOFF=%d" % m01]})
    return out
