/* vf_stubs.h — shared stubs (DESIGN E5/E11).  Included by harness TUs that link real
 * units whose panic/formatting functions had their bodies removed, or that do not
 * link capi.c/abstract.c at all.
 *
 * Non-local exit: janet_panic* / janet_signalv never return.  Under CBMC that is
 * expressed as "this path ends here" (assume(0)) after recording vf_panicked, or —
 * when the harness sets vf_panic_is_violation — as a failed obligation.
 * Natively (replay) the stub longjmps to vf_panic_jmp if armed, else exits like VF_CUT.
 */
#ifndef VF_STUBS_H
#define VF_STUBS_H
#include <janet.h>
#include <stdlib.h>
#include <stdarg.h>
#include "vf.h"

int vf_panicked;             /* set when a panic was raised on this path */
int vf_panic_is_violation;   /* assert-mode: a panic is a failed obligation */

#ifdef VF_REPLAY
#include <setjmp.h>
jmp_buf vf_panic_jmp;
int vf_panic_jmp_armed;
#define VF_TRY if (vf_panic_jmp_armed = 1, setjmp(vf_panic_jmp) == 0)
static void vf_panic_common(void) {
    vf_panicked = 1;
    if (vf_panic_is_violation) VF_UNREACHABLE("raised an error where the reference does not");
    if (vf_panic_jmp_armed) { vf_panic_jmp_armed = 0; longjmp(vf_panic_jmp, 1); }
    VF_CUT();
}
#else
/* under CBMC a panic ends the path, so the "catch" side is never entered */
#define VF_TRY if (1)
static void vf_panic_common(void) {
    vf_panicked = 1;
    if (vf_panic_is_violation) VF_UNREACHABLE("raised an error where the reference does not");
    VF_CUT();
}
#endif

#ifndef VF_NO_PANIC_STUBS
void janet_panicv(Janet message) { (void) message; vf_panic_common(); while (1) {} }
void janet_panic(const char *message) { (void) message; vf_panic_common(); while (1) {} }
void janet_panics(JanetString message) { (void) message; vf_panic_common(); while (1) {} }
void janet_panicf(const char *format, ...) { (void) format; vf_panic_common(); while (1) {} }
void janet_signalv(JanetSignal sig, Janet message) { (void) sig; (void) message; vf_panic_common(); while (1) {} }
void janet_panic_type(Janet x, int32_t n, int expected) { (void) x; (void) n; (void) expected; vf_panic_common(); while (1) {} }
void janet_panic_abstract(Janet x, int32_t n, const JanetAbstractType *at) { (void) x; (void) n; (void) at; vf_panic_common(); while (1) {} }
#endif

#ifdef VF_STUB_ABSTRACT
/* abstract.c not linked: plain malloc-backed abstract allocation (no GC list) */
void *janet_abstract_begin(const JanetAbstractType *atype, size_t size) {
    JanetAbstractHead *header = malloc(sizeof(JanetAbstractHead) + size);
#ifndef VF_REPLAY
    __CPROVER_assume(header != 0);
#endif
    header->gc.flags = 11; /* JANET_MEMORY_ABSTRACT (gc.h) */
    header->gc.data.next = NULL;
    header->type = atype;
    header->size = size;
    return (void *) & (header->data);
}
void *janet_abstract_end(void *x) { return x; }
void *janet_abstract(const JanetAbstractType *atype, size_t size) {
    return janet_abstract_end(janet_abstract_begin(atype, size));
}
#endif

#endif
