/* VF
{
 "defines": ["-DJANET_NO_NANBOX"],
 "units": ["wrap.c", "state.c"],
 "backend": "cadical",
 "unwind": 6,
 "timeout": 300,
 "no_body_deny_re": "^(peg_rule|janet_panic)",
 "cases_py": "peg_depth_cases.py",
 "functions_encoded": ["peg.c: peg_rule (one combinator over a leaf rule), cap_save, cap_load, cap_load_keept, down1/up1 depth accounting"],
 "asserted": ["R1 (PEG): for every combinator with a sub-rule, evaluating it on any text of length 0..2 (sub-rule succeeding or failing) leaves the recursion budget exactly as it found it — so the budget bounds native recursion depth for every grammar — and raises 'recursed too deeply' (not a native recursion) when the budget is exhausted: with budget 1 the combinator never enters its sub-rule"],
 "bounds": ["combinators NOT LOOK IF IFNOT CHOICE SEQUENCE BETWEEN TO THRU CAPTURE DROP ACCUMULATE over the leaf (1 any-char) and over a failing leaf; text length 0..2 symbolic bytes; budget symbolic in [1, 1024]"],
 "stubs": ["capture arrays/buffers pre-allocated by the harness (no growth)", "janet_panic family = end of path (records vf_panicked)", "all other body-less callees inert"],
 "outside_claim": ["native stack size for 1024 frames", "compile-time depth (peg_compile1)", "combinators with callbacks (cmt, error), lenprefix, sub/split/til"]
}
VF */
#include "vf_stubs.h"
#include "state.h"
#include "peg.c"

#ifndef VF_RULE
#error case macros missing
#endif
static const uint32_t bc[] = VF_BYTECODE;   /* word 0.. = the combinator; sub-rules at the offsets it names */
static Janet capdata[8], tcapdata[8];
static uint8_t scratchdata[16], tagdata[16];
static JanetArray captures, tagged;
static JanetBuffer scratch, tags;

void harness(void) {
    PegState s;
    memset(&s, 0, sizeof(s));
    uint8_t text[2];
    text[0] = vf_u8(); text[1] = vf_u8();
    int32_t len = vf_range(0, 2);
    s.text_start = text; s.text_end = text + len; s.outer_text_end = text + len;
    s.bytecode = bc; s.constants = NULL;
    captures.data = capdata; captures.capacity = 8; captures.count = 0;
    tagged.data = tcapdata; tagged.capacity = 8; tagged.count = 0;
    scratch.data = scratchdata; scratch.capacity = 16; scratch.count = 0;
    tags.data = tagdata; tags.capacity = 16; tags.count = 0;
    s.captures = &captures; s.tagged_captures = &tagged; s.scratch = &scratch; s.tags = &tags;
    s.mode = PEG_MODE_NORMAL; s.has_backref = 0; s.extrac = 0; s.extrav = NULL;
    int32_t budget = vf_range(1, 1024);
    s.depth = budget;
    VF_WITNESS("combinator entered");
    const uint8_t *r = peg_rule(&s, bc, text);
    /* returned normally */
    VF_ASSERT(s.depth == budget, "the recursion budget is not restored after the combinator returns (leaks or gains depth)");
    VF_ASSERT(budget > 1, "the combinator evaluated its sub-rule although the budget was exhausted");
    VF_ASSERT(r == NULL || (r >= text && r <= text + len), "match end outside the text");
    VF_WITNESS("combinator returned");
}
