import re, os
def cases(tier, hdr, path):
    repo = os.environ.get("VF_REPO", "/repo")
    src = open(os.path.join(repo, "src/include/janet.h")).read()
    m = re.search(r"enum JanetOpCode \{(.*?)\};", src, re.S)
    ops = [x.strip() for x in m.group(1).split(",") if x.strip()]
    out = []
    for o in ops:
        if o in ("JOP_INSTRUCTION_COUNT", "JOP_LOAD_UPVALUE", "JOP_SET_UPVALUE"):
            continue
        out.append({"name": o[4:].lower(), "D": ["-DVF_OPC=%s" % o]})
    return out
