/* VF
{
 "defines": ["-DJANET_NO_NANBOX"],
 "units": ["wrap.c", "state.c", "fiber.c"],
 "remove_bodies": ["janet_fiber_funcframe", "janet_fiber_funcframe_tail", "janet_fiber_cframe", "janet_fiber_push", "janet_fiber_pushn", "janet_fiber_push2", "janet_fiber_push3", "janet_fiber_setcapacity", "janet_fiber_popframe", "janet_fiber", "janet_fiber_reset", "janet_env_detach", "janet_env_valid", "janet_env_maybe_detach"],
 "remove_bodies_after_link": ["janet_loop1_impl"],
 "cbmc": ["--no-built-in-assertions"],
 "allow_no_body": ["janet_loop1_impl"],
 "no_body_deny_re": "^(janet_loop1$|janet_schedule|janet_cancel|pop_timeout|peek_timeout|add_timeout|ts_now|clock_gettime)",
 "backend": "cadical",
 "unwind": 6,
 "timeout": 300,
 "cases": [{"name": "expiry_n1", "D": ["-DVF_NT=1"]}, {"name": "expiry_n2", "D": ["-DVF_NT=2"], "tier": "thorough", "mem_gb": 12, "timeout": 1200}, {"name": "heap_add_pop", "D": ["-DVF_NT=3", "-DVF_HEAP"]}, {"name": "sleep_delta", "D": ["-DVF_NT=0", "-DVF_DELTA"]}],
 "functions_encoded": ["ev.c: janet_loop1 (timer expiry part and the dead-timer sweep), peek_timeout, pop_timeout, add_timeout, ts_now, ts_delta, janet_schedule_general"],
 "asserted": ["S2: in one turn of the loop a timer fires only if its deadline is not in the future (when <= now, clock arbitrary); a sleep/timeout entry resumes its fiber only if the fiber's generation still equals the entry's (an abandoned wait's timer is inert); a deadline entry cancels the guarded task only while the guarded body (curr_fiber) can still be resumed — never after it finished; every fired entry schedules exactly one task",
              "timer heap: add then pop returns the minimum and keeps the remaining entries (multiset) heap-ordered",
              "S3: ts_delta(now, sec) = now + round(sec * 1000): a sleep of sec seconds is never scheduled to wake before that many milliseconds"],
 "bounds": ["1-2 pending timers (3 for the heap step), deadlines, clock, generations and fiber statuses symbolic; the polling back end (janet_loop1_impl) is body-less; running of scheduled tasks is suppressed (auto_suspend)"],
 "stubs": ["clock_gettime = arbitrary time", "janet_loop1_impl body-less", "janet_table_put/remove, string constructors inert"],
 "outside_claim": ["the kernel timer/poll, worker threads of interrupting deadlines, ev/with-deadline macro logic"]
}
VF */
#include "features.h"
#include "vf_stubs.h"
#include "state.h"
#include <time.h>
static Janet vf_tuple_store[4];
Janet *janet_tuple_begin(int32_t length) { (void) length; return vf_tuple_store; }
const Janet *janet_tuple_end(Janet *tuple) { return tuple; }
const uint8_t *janet_csymbol(const char *s) { (void) s; return (const uint8_t *) "k"; }
static struct { JanetStringHead head; uint8_t data[8]; } vf_errstr;
const uint8_t *janet_cstring(const char *s) { (void) s; return vf_errstr.data; }
void janet_table_put(JanetTable *t, Janet k, Janet v) { (void) t; (void) k; (void) v; }
Janet janet_table_remove(JanetTable *t, Janet k) { (void) t; (void) k; return janet_wrap_nil(); }
static int64_t vf_now_ms;
int clock_gettime(clockid_t id, struct timespec *ts) { (void) id; ts->tv_sec = vf_now_ms / 1000; ts->tv_nsec = (vf_now_ms % 1000) * 1000000L; return 0; }
#include "ev.c"

static JanetFiber F[4];
static JanetTimeout heap[4];
static int32_t ntask(void) { return janet_q_count(&janet_vm.spawn); }
static JanetTask *task_at(int k) { JanetQueue *q = &janet_vm.spawn; return ((JanetTask *) q->data) + ((q->head + k) % q->capacity); }
static int scheduled(JanetFiber *f) { int n = 0; for (int k = 0; k < 4; k++) if (k < ntask() && task_at(k)->fiber == f) n++; return n; }

void harness(void) {
    janet_vm.spawn.data = malloc(sizeof(JanetTask) * 8); janet_vm.spawn.capacity = 8; janet_vm.spawn.head = 0; janet_vm.spawn.tail = 0;
#ifndef VF_REPLAY
    __CPROVER_assume(janet_vm.spawn.data != 0);
#endif
    janet_vm.auto_suspend = 1;        /* do not run scheduled tasks in this turn: only the timer logic is under test */
    janet_vm.listener_count = 0;
    janet_vm.tq = heap; janet_vm.tq_capacity = 4; janet_vm.tq_count = 0;
    for (int i = 0; i < 4; i++) { F[i].sched_id = vf_u32(); F[i].flags = (vf_bool() ? JANET_STATUS_PENDING : JANET_STATUS_DEAD) << JANET_FIBER_STATUS_OFFSET; F[i].gc.flags = 0; }
#ifdef VF_DELTA
    int64_t now = (int64_t) vf_range(0, 1000000);
    double sec = (double) vf_range(0, 100000) / 1000.0;
    VF_WITNESS("delta");
    JanetTimestamp w = ts_delta(now, sec);
    VF_ASSERT((double)(w - now) >= sec * 1000.0 - 0.5, "a sleep deadline earlier than the requested duration (beyond millisecond rounding)");
#elif defined(VF_HEAP)
    int64_t w[3];
    for (int i = 0; i < 3; i++) { w[i] = (int64_t) vf_range(0, 1000); JanetTimeout t; memset(&t, 0, sizeof(t)); t.when = w[i]; t.fiber = &F[i]; add_timeout(t); }
    VF_WITNESS("heap built");
    VF_ASSERT(janet_vm.tq_count == 3, "count after adds");
    int64_t mn = w[0] < w[1] ? (w[0] < w[2] ? w[0] : w[2]) : (w[1] < w[2] ? w[1] : w[2]);
    JanetTimeout top; VF_ASSERT(peek_timeout(&top) && top.when == mn, "the heap top is not the earliest deadline");
    pop_timeout(0);
    VF_ASSERT(janet_vm.tq_count == 2 && janet_vm.tq[0].when <= janet_vm.tq[1].when, "heap order after pop");
    VF_ASSERT(janet_vm.tq[0].when + janet_vm.tq[1].when + mn == w[0] + w[1] + w[2], "an entry was lost or duplicated by pop");
#else
    int64_t when[2]; int isdl[2];
    for (int i = 0; i < VF_NT; i++) {
        JanetTimeout t; memset(&t, 0, sizeof(t));
        when[i] = (int64_t) vf_range(0, 1000);
        isdl[i] = vf_bool();
        t.when = when[i]; t.fiber = &F[2 * i]; t.curr_fiber = isdl[i] ? &F[2 * i + 1] : NULL; t.sched_id = vf_u32(); t.is_error = vf_bool(); t.has_worker = 0;
        heap[i] = t;
    }
    if (VF_NT == 2) VF_ASSUME(heap[0].when <= heap[1].when);
    janet_vm.tq_count = VF_NT;
    JanetTimeout pre[2] = { heap[0], heap[1] };
    uint32_t gen[4] = { F[0].sched_id, F[1].sched_id, F[2].sched_id, F[3].sched_id };
    vf_now_ms = (int64_t) vf_range(0, 1000);
    VF_WITNESS("loop turn");
    (void) janet_loop1();
    for (int i = 0; i < VF_NT; i++) {
        JanetFiber *f = &F[2 * i], *body = &F[2 * i + 1];
        int n = scheduled(f);
        VF_ASSERT(n <= 1, "a timer scheduled its fiber more than once");
        if (n) {
            VF_ASSERT(pre[i].when <= vf_now_ms, "a timer fired before its deadline");
            if (isdl[i]) VF_ASSERT(janet_fiber_can_resume(body), "a deadline cancelled its task after the guarded body had finished");
            else VF_ASSERT(gen[2 * i] == pre[i].sched_id, "the timer of an abandoned wait resumed the fiber out of a later wait");
        } else if (pre[i].when <= vf_now_ms && (VF_NT == 1 || i == 0 || pre[0].when <= vf_now_ms)) {
            if (isdl[i]) VF_ASSERT(!janet_fiber_can_resume(body), "an expired deadline did not cancel a still-running body");
            else VF_ASSERT(gen[2 * i] != pre[i].sched_id, "an expired sleep/timeout did not wake its still-waiting fiber");
        }
    }
#endif
    VF_WITNESS("timer end");
}
