import os
import re, os
def cases(tier, hdr, path):
    unit = hdr["sb_unit"]
    src = open(os.path.join(os.path.join(os.environ.get("VF_REPO", "/repo"), "src/core"), unit)).read()
    fns = re.findall(r"JANET_CORE_FN\((\w+),", src)
    out = []
    skip = set(hdr.get("sb_skip", []))
    for f in fns:
        if f in skip:
            continue
        extra = {"cbmc_remove": list(hdr.get("cbmc_remove", [])) + ["--unwinding-assertions"]} if f in hdr.get("sb_cut_loops", []) else {}
        if f in hdr.get("sb_thorough", []):
            extra = dict(extra, tier="thorough", timeout=900)
        out.append({**extra, "name": f, "D": ["-DVF_FN=%s" % f, "-DSB_UNIT_FILE=\"%s\"" % unit, "-DSB_UNIT_%s" % unit[:-2]]})
    return out
