/* VF
{
 "defines": ["-DJANET_NO_NANBOX"],
 "units": ["array.c", "capi.c", "wrap.c", "util.c", "state.c", "value.c", "tuple.c"],
 "remove_bodies": ["janet_panicv","janet_panic","janet_panics","janet_panicf","janet_signalv","janet_panic_type","janet_panic_abstract", "janet_formatbv", "janet_formatb", "janet_formatc", "janet_description_b", "janet_to_string_b", "janet_pretty", "janet_in", "janet_get", "janet_put", "janet_next", "janet_compare", "janet_equals", "janet_hash", "janet_mcall", "janet_call", "janet_getindex", "janet_lengthv", "janet_putindex"],
 "backend": "cadical",
 "unwind": 9,
 "unwindset": ["memmove.0:34", "memmove.1:34", "memcpy.0:34"],
 "timeout": 300,
 "cases_py": "array_ops_cases.py",
 "functions_encoded": ["array.c: janet_array_ensure, janet_array_setcount, janet_array_push, janet_array_pop, janet_array_peek, cfun_array_push, cfun_array_pop, cfun_array_fill, cfun_array_insert, cfun_array_remove, cfun_array_slice, cfun_array_concat, cfun_array_trim, cfun_array_clear, cfun_array_ensure", "capi.c: janet_getarray, janet_getinteger, janet_getslice, janet_gethalfrange, janet_getstartrange, janet_getendrange, janet_getargindex, janet_getindexed, janet_arity, janet_fixarity", "value.c: janet_length (array)"],
 "asserted": ["A1 (inductive step): from an arbitrary array state (0 <= count <= capacity, capacity > 0 implies the data block holds capacity slots), one operation with arbitrary int32 / value arguments either raises or yields exactly the sequence model (push/pop/insert/remove/slice/fill/concat incl. self-concat/trim/clear/setcount/ensure), keeps untouched elements, re-establishes the state invariant (in particular count <= capacity and a usable data block), and performs no out-of-object access (CBMC pointer checks)",
              "returns normally implies the index arguments were inside the documented range (negative = from the end)",
              "A2: janet_gethalfrange / getargindex / getslice decode every int32 index against every length >= 0 to the documented position or raise; 0 <= start <= end <= length"],
 "bounds": ["capacity 0..4 and length <= capacity (both concrete per case, all combinations), number of pushed/inserted values concrete per case (0..2), element values = arbitrary numbers, 0..2 extra arguments; A2: all int32 raw indexes x all lengths 0..INT32_MAX"],
 "stubs": ["memcpy/memmove = word-wise C definitions (CBMC built-in model loses copies of symbolic size)", "janet_gcalloc = malloc (GC list not modelled)", "janet_panic family = end of path", "formatting removed"],
 "outside_claim": ["a container of exactly INT32_MAX elements (janet_gethalfrange computes length + 1)", "array/remove on a never-allocated empty array calls memmove(NULL, NULL, 0) (formal UB, harmless in glibc): capacity 0 is skipped for remove", "capacities above 4", "array/new with negative capacity", "boot.janet sequence helpers"]
}
VF */
#include "vf_stubs.h"
#include "state.h"
#include "gc.h"
void *janet_gcalloc(enum JanetMemoryType type, size_t size) {
    JanetGCObject *p = malloc(size);
#ifndef VF_REPLAY
    __CPROVER_assume(p != 0);
#endif
    memset(p, 0, size);
    p->flags = type;
    return p;
}
void janet_gcpressure(size_t s) { (void) s; }
/* CBMC's built-in memcpy/memmove models are imprecise for symbolic sizes (observed: the copy is lost);
 * word-wise definitions with the C semantics (overlap-safe for memmove) are used instead. All copies here move whole Janet slots. */
void *memmove(void *d, const void *s, size_t n) {
    uint64_t *dd = d; const uint64_t *ss = s; size_t w = n / 8;
    VF_ASSERT(n % 8 == 0 && n <= 16 * 16, "copy size is a whole number of slots within the bound");
    if ((uintptr_t) dd < (uintptr_t) ss) { for (size_t i = 0; i < w; i++) dd[i] = ss[i]; }
    else { for (size_t i = w; i > 0; i--) dd[i - 1] = ss[i - 1]; }
    return d;
}
void *memcpy(void *d, const void *s, size_t n) {
    uint64_t *dd = d; const uint64_t *ss = s; size_t w = n / 8;
    VF_ASSERT(n % 8 == 0 && n <= 16 * 16, "copy size is a whole number of slots within the bound");
    for (size_t i = 0; i < w; i++) dd[i] = ss[i];
    return d;
}
#include "array.c"

#ifndef VF_CAPC
#define VF_CAPC 0
#endif
#define MAXN 8
static double pre[MAXN];
static int32_t pre_n;

static int same(Janet v, double d) {
    union { double d; uint64_t u; } a, b;
    if (!janet_checktype(v, JANET_NUMBER)) return 0;
    a.d = janet_unwrap_number(v); b.d = d;
    if (a.d != a.d && b.d != b.d) return 1;   /* CBMC does not preserve NaN payloads across by-value passing: all NaNs identified */
    return a.u == b.u;
}
static void check_state(JanetArray *a) {
    VF_ASSERT(a->count >= 0 && a->count <= a->capacity, "count outside [0, capacity]");
#ifndef VF_REPLAY
    if (a->capacity > 0) {
        VF_ASSERT(a->data != NULL, "capacity > 0 with a NULL data block");
        VF_ASSERT(__CPROVER_OBJECT_SIZE(a->data) >= (size_t) a->capacity * sizeof(Janet), "data block smaller than capacity");
    }
#else
    if (a->capacity > 0) { VF_ASSERT(a->data != NULL, "capacity > 0 with a NULL data block"); volatile Janet probe = a->data[a->capacity - 1]; (void) probe; }
#endif
}

void harness(void) {
#if VF_OP == 100
    /* A2: range decoding, full int32 x length */
    int32_t raw = vf_i32(), length = vf_i32();
    VF_ASSUME(length >= 0 && length < INT32_MAX);   /* length == INT32_MAX makes `length + 1` overflow (formal UB, filed in outside_claim) */
    Janet argv[1]; argv[0] = janet_wrap_number((double) raw);
    int which = vf_bool();
    int32_t r = which ? janet_gethalfrange(argv, 0, length, "x") : janet_getargindex(argv, 0, length, "x");
    int64_t want = (int64_t) raw + (raw < 0 ? (int64_t) length + (which ? 1 : 0) : 0);
    VF_ASSERT(want >= 0 && want <= length, "an out-of-range index was accepted");
    VF_ASSERT(r == want, "index decoded to the wrong position");
    VF_WITNESS("range decode");
    return;
#else
    JanetArray *a = janet_gcalloc(JANET_MEMORY_ARRAY, sizeof(JanetArray));
    a->capacity = VF_CAPC;
    a->data = VF_CAPC ? malloc(sizeof(Janet) * VF_CAPC) : NULL;
#ifndef VF_REPLAY
    if (VF_CAPC) __CPROVER_assume(a->data != 0);
#endif
    pre_n = VF_N;   /* length concrete per case: symbolic realloc sizes stall the solver */
    a->count = pre_n;
    for (int i = 0; i < VF_CAPC; i++) { pre[i] = vf_f64(); a->data[i] = janet_wrap_number(pre[i]); }
    Janet self = janet_wrap_array(a);
    Janet argv[5];
    argv[0] = self;
    double x1 = vf_f64(), x2 = vf_f64();
    int32_t i1 = vf_i32(), i2 = vf_i32();
#if VF_OP == 1      /* array/push with 0..2 values */
    int32_t extra = VF_EXTRA;
    argv[1] = janet_wrap_number(x1); argv[2] = janet_wrap_number(x2);
    cfun_array_push(1 + extra, argv);
    VF_ASSERT(a->count == pre_n + extra, "push: length");
    for (int i = 0; i < MAXN; i++) if (i < pre_n) VF_ASSERT(same(a->data[i], pre[i]), "push: an existing element changed");
    if (extra > 0) VF_ASSERT(same(a->data[pre_n], x1), "push: first pushed value");
    if (extra > 1) VF_ASSERT(same(a->data[pre_n + 1], x2), "push: second pushed value");
#elif VF_OP == 2    /* array/pop */
    Janet r = cfun_array_pop(1, argv);
    if (pre_n == 0) VF_ASSERT(janet_checktype(r, JANET_NIL), "pop on empty array is not nil");
    else { VF_ASSERT(same(r, pre[pre_n - 1]), "pop returned a different element than the last"); VF_ASSERT(a->count == pre_n - 1, "pop: length"); }
    for (int i = 0; i < MAXN; i++) if (i < a->count) VF_ASSERT(same(a->data[i], pre[i]), "pop: an existing element changed");
#elif VF_OP == 3    /* array/insert at any int32 index, 1..2 values */
    int32_t extra = VF_EXTRA;
    argv[1] = janet_wrap_number((double) i1); argv[2] = janet_wrap_number(x1); argv[3] = janet_wrap_number(x2);
    cfun_array_insert(2 + extra, argv);
    int64_t at = i1 < 0 ? (int64_t) pre_n + i1 + 1 : i1;
    VF_ASSERT(at >= 0 && at <= pre_n, "insert accepted an out-of-range index");
    VF_ASSERT(a->count == pre_n + extra, "insert: length");
    for (int i = 0; i < MAXN; i++) if (i < a->count) {
        if (i < at) VF_ASSERT(same(a->data[i], pre[i]), "insert: prefix changed");
        else if (i == at) VF_ASSERT(same(a->data[i], x1), "insert: first value");
        else if (i == at + 1 && extra == 2) VF_ASSERT(same(a->data[i], x2), "insert: second value");
        else VF_ASSERT(same(a->data[i], pre[i - extra]), "insert: suffix not shifted correctly");
    }
#elif VF_OP == 4    /* array/remove at index, optional count */
    int32_t hasn = vf_bool();
    argv[1] = janet_wrap_number((double) i1); argv[2] = janet_wrap_number((double) i2);
    cfun_array_remove(hasn ? 3 : 2, argv);
    int64_t at = i1 < 0 ? (int64_t) pre_n + i1 : i1;   /* -1 = last element */
    VF_ASSERT(at >= 0 && at <= pre_n, "remove accepted an out-of-range index");
    int64_t n = hasn ? i2 : 1;
    VF_ASSERT(n >= 0, "remove accepted a negative count");
    if (at + n > pre_n) n = pre_n - at;
    VF_ASSERT(a->count == pre_n - n, "remove: length");
    for (int i = 0; i < MAXN; i++) if (i < a->count) VF_ASSERT(same(a->data[i], i < at ? pre[i] : pre[i + n]), "remove: remaining elements");
#elif VF_OP == 5    /* array/slice with 0..2 range arguments */
    int32_t na = vf_range(0, 2);
    argv[1] = vf_bool() ? janet_wrap_nil() : janet_wrap_number((double) i1);
    argv[2] = vf_bool() ? janet_wrap_nil() : janet_wrap_number((double) i2);
    Janet r = cfun_array_slice(1 + na, argv);
    int64_t s = (na >= 1 && !janet_checktype(argv[1], JANET_NIL)) ? (i1 < 0 ? (int64_t) i1 + pre_n + 1 : i1) : 0;
    int64_t e = (na >= 2 && !janet_checktype(argv[2], JANET_NIL)) ? (i2 < 0 ? (int64_t) i2 + pre_n + 1 : i2) : pre_n;
    VF_ASSERT(s >= 0 && s <= pre_n && e >= 0 && e <= pre_n, "slice accepted an out-of-range bound");
    if (e < s) e = s;
    JanetArray *b = janet_unwrap_array(r);
    VF_ASSERT(b != a, "slice returned its input");
    VF_ASSERT(b->count == e - s, "slice: length");
    for (int i = 0; i < MAXN; i++) if (i < b->count) VF_ASSERT(same(b->data[i], pre[s + i]), "slice: element");
    VF_ASSERT(a->count == pre_n, "slice modified its input length");
    for (int i = 0; i < MAXN; i++) if (i < pre_n) VF_ASSERT(same(a->data[i], pre[i]), "slice modified its input");
    check_state(b);
#elif VF_OP == 6    /* array/fill */
    int32_t has = vf_bool();
    argv[1] = janet_wrap_number(x1);
    cfun_array_fill(1 + has, argv);
    VF_ASSERT(a->count == pre_n, "fill: length");
    for (int i = 0; i < MAXN; i++) if (i < pre_n) VF_ASSERT(has ? same(a->data[i], x1) : janet_checktype(a->data[i], JANET_NIL), "fill: element");
#elif VF_OP == 7    /* array/concat with itself and a scalar */
    argv[1] = self; argv[2] = janet_wrap_number(x1);
    cfun_array_concat(3, argv);
    VF_ASSERT(a->count == 2 * pre_n + 1, "concat: length");
    for (int i = 0; i < MAXN; i++) if (i < pre_n) { VF_ASSERT(same(a->data[i], pre[i]), "concat: prefix"); VF_ASSERT(same(a->data[pre_n + i], pre[i]), "concat self: copy differs from the old contents"); }
    VF_ASSERT(same(a->data[2 * pre_n], x1), "concat: scalar");
#elif VF_OP == 8    /* array/trim then the state must still be usable */
    cfun_array_trim(1, argv);
    VF_ASSERT(a->count == pre_n, "trim: length");
    VF_ASSERT(a->capacity == pre_n, "trim: capacity is not the length");
    for (int i = 0; i < MAXN; i++) if (i < pre_n) VF_ASSERT(same(a->data[i], pre[i]), "trim: element");
#elif VF_OP == 9    /* janet_array_setcount with any int32 */
    VF_ASSUME(i1 <= 6);   /* bound: growth beyond 6 elements not explored; every negative count is */
    janet_array_setcount(a, i1);
    if (i1 < 0) VF_ASSERT(a->count == pre_n, "setcount(negative) changed the array");
    else {
        VF_ASSERT(a->count == i1, "setcount: length");
        for (int i = 0; i < MAXN; i++) if (i < a->count) VF_ASSERT(i < pre_n ? same(a->data[i], pre[i]) : janet_checktype(a->data[i], JANET_NIL), "setcount: element");
    }
#elif VF_OP == 10   /* janet_array_ensure, growth 1 or 2, any requested capacity that fits the bound */
    int32_t g = vf_range(1, 2);
    VF_ASSUME(i1 <= 8);
    janet_array_ensure(a, i1, g);
    VF_ASSERT(a->capacity >= i1 && a->capacity >= VF_CAPC, "ensure produced a smaller capacity than requested");
    VF_ASSERT(a->count == pre_n, "ensure: length");
    for (int i = 0; i < MAXN; i++) if (i < pre_n) VF_ASSERT(same(a->data[i], pre[i]), "ensure: element");
#elif VF_OP == 11   /* array/clear */
    cfun_array_clear(1, argv);
    VF_ASSERT(a->count == 0, "clear: length");
#endif
    check_state(a);
    VF_WITNESS("array step end");
#endif
}
