/* VF
{
 "defines": ["-DJANET_NO_NANBOX"],
 "units": [],
 "backend": "cadical",
 "timeout": 300,
 "cases_py": "scan_int_cases.py",
 "functions_encoded": ["strtod.c: scan_uint64, janet_scan_int64, janet_scan_uint64"],
 "asserted": ["N4: accepted <=> the text is [sign] [radix prefix] digits/underscores (first non-zero-prefix char not '_') with every digit < radix and the denoted value fits the type; when accepted the value is exact (reference: 128-bit accumulation); INT64_MIN accepted, INT64_MIN-1 and 2^64 rejected",
              "never reads outside the string (CBMC bounds checks on a heap buffer of exactly len bytes)"],
 "bounds": ["radix (concrete per case) in {10,16,36,7} quick, + {2,8} thorough; sign concrete per case; text = concrete leading digits (the digits of UINT64_MAX, INT64_MAX, or nothing) followed by 1..4 fully symbolic characters (any byte), so every text within +-base^4 of the 2^63 / 2^64 boundaries and every text of <= 4 characters is covered"],
 "stubs": [],
 "outside_claim": ["strings longer than the listed lengths (the accumulate step is the same per character)", "radix prefixes other than the concrete ones listed"]
}
VF */
#include "vf.h"
#include <janet.h>
#include <stdlib.h>
#include "strtod.c"

#ifndef VF_NDIG
#error case macros missing
#endif

/* VF_PREFIX: string literal radix prefix ("" / "0x" / "36r" ...), VF_BASE its radix, VF_NDIG number of digit chars */
static const char prefix[] = VF_PREFIX;
#define PLEN (sizeof(prefix) - 1)
static const char head[] = VF_HEAD;
#define HLEN (sizeof(head) - 1)

static int digit_of(uint8_t ch) {
    if (ch >= '0' && ch <= '9') return ch - '0';
    if (ch >= 'a' && ch <= 'z') return ch - 'a' + 10;
    if (ch >= 'A' && ch <= 'Z') return ch - 'A' + 10;
    return 255;
}

void harness(void) {
    const int sign = VF_SIGN;    /* 0 none, 1 '-', 2 '+' : concrete per case so that buffer offsets stay concrete */
    int32_t len = (sign ? 1 : 0) + (int32_t) PLEN + (int32_t) HLEN + VF_NDIG;
    uint8_t *s = malloc(len);
#ifndef VF_REPLAY
    __CPROVER_assume(s != 0);
#endif
    int32_t k = 0;
    if (sign == 1) s[k++] = '-';
    if (sign == 2) s[k++] = '+';
    for (size_t i = 0; i < PLEN; i++) s[k++] = (uint8_t) prefix[i];
    /* reference value: head * base^m + tail, where m = number of digit characters in the symbolic tail.
     * head is concrete, so head * base^m is one of <= 5 constants (128-bit), selected by m. */
    unsigned __int128 hb[VF_NDIG + 1];
    int valid = 1, seen = 0;
    {
        unsigned __int128 hv = 0;
        for (size_t i = 0; i < HLEN; i++) {
            s[k++] = (uint8_t) head[i];
            hv = hv * VF_BASE + (unsigned) digit_of((uint8_t) head[i]);
            seen = 1;
        }
        for (int j = 0; j <= VF_NDIG; j++) { hb[j] = hv; hv *= VF_BASE; }
    }
    uint32_t tv = 0;   /* tail value < 36^4 */
    int m = 0;
    for (int i = 0; i < VF_NDIG; i++) {
        uint8_t ch = vf_u8();
        s[k++] = ch;
        if (ch == '_') {
            if (!seen) valid = 0;
        } else {
            int d = (ch < 128) ? digit_of(ch) : 255;
            if (d >= VF_BASE) valid = 0;
            else {
                tv = tv * VF_BASE + (uint32_t) d;
                m++;
                seen = 1;
            }
        }
    }
    unsigned __int128 acc = hb[m] + tv;
    int big = acc > (unsigned __int128) UINT64_MAX;
    /* a leading "0x"/"NNr" look-alike inside the digits would change the radix: exclude digit strings that themselves start with such a prefix when no explicit prefix is given */
    if (sign == 0 && PLEN == 0 && HLEN == 0) VF_ASSUME(s[0] != '+' && s[0] != '-');   /* that would be a sign */
#if VF_PLAIN
    if (HLEN == 0) {
    VF_ASSUME(!(VF_NDIG >= 2 && s[k - VF_NDIG] == '0' && s[k - VF_NDIG + 1] == 'x'));
    VF_ASSUME(!(VF_NDIG >= 2 && s[k - VF_NDIG + 1] == 'r'));
    VF_ASSUME(!(VF_NDIG >= 3 && s[k - VF_NDIG + 2] == 'r'));
    }
#endif
    int ok_u = valid && seen && !big;
    uint64_t want = (uint64_t) acc;

#if VF_WHICH == 0
    uint64_t out = 0;
    int r = janet_scan_uint64(s, len, &out);
    if (r) {
        VF_ASSERT(ok_u && sign != 1, "uint64 text accepted although malformed, negative or out of range");
        VF_ASSERT(out == want, "uint64 text accepted with the wrong value");
    } else {
        VF_ASSERT(!(ok_u && sign != 1), "well-formed in-range uint64 text rejected");
    }
#else
    int64_t out = 0;
    int r = janet_scan_int64(s, len, &out);
    int fits = ok_u && (sign == 1 ? want <= (uint64_t) INT64_MAX + 1 : want <= (uint64_t) INT64_MAX);
    if (r) {
        VF_ASSERT(fits, "int64 text accepted although malformed or out of range");
        VF_ASSERT((uint64_t) out == (sign == 1 ? (uint64_t) 0 - want : want), "int64 text accepted with the wrong value");
    } else {
        VF_ASSERT(!fits, "well-formed in-range int64 text rejected");
    }
#endif
    VF_WITNESS("scan end");
}
