
#include "sb_stubs.h"
#include SB_UNIT_FILE

void harness(void) {
    janet_vm.sandbox_flags = vf_u32();
    int32_t argc = vf_range(0, 4);
    Janet argv[4];
    for (int i = 0; i < 4; i++) argv[i] = janet_wrap_nil();
    VF_WITNESS("function entered");
    (void) VF_FN(argc, argv);
}
