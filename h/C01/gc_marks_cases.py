def cases(tier, hdr, path):
    out = []
    for ih in range(4):
        for ni in range(4):
            for nr, nw, rh in ((0, 0, 0), (1, 1, 3), (2, 0, 3), (0, 2, 2)):
                q = "quick" if (nr, nw) in ((0, 0), (1, 1)) else "thorough"
                out.append({"name": "chan_ih%d_ni%d_r%d_w%d" % (ih, ni, nr, nw), "tier": q,
                            "D": ["-DVF_CASE=1", "-DVF_IH=%d" % ih, "-DVF_NI=%d" % ni, "-DVF_NR=%d" % nr, "-DVF_NW=%d" % nw, "-DVF_RH=%d" % rh]})
    out.append({"name": "env_maybe_detach", "D": ["-DVF_CASE=2"]})
    for c, n in ((3, "array"), (4, "tuple"), (5, "struct"), (6, "table")):
        out.append({"name": "mark_" + n, "D": ["-DVF_CASE=%d" % c]})
    return out
